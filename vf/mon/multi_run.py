"""Several command-line runs inside ONE interpreter process, with source edits between them (what a watcher, a test-suite or an
in-process build driver does): every 'run' step executes the real rogw/tranp/bin/transpile.py as __main__ again.

usage: python -m vf.mon.multi_run <plan.json>   (cwd = project directory)
plan: {"script": path, "steps": [["run", [args...]] | ["write", relpath, text, mtime] | ["touch", relpath, mtime]]}
prints one line 'STEP <i> run exit=<code>' per run; exit code = 1 if the last run failed.
"""
import json
import os
import runpy
import sys


def main() -> int:
	plan = json.load(open(sys.argv[1], encoding='utf-8'))
	script = plan['script']
	sys.path.insert(0, os.path.dirname(os.path.abspath(script)))
	last = 0
	for i, step in enumerate(plan['steps']):
		if step[0] == 'run':
			sys.argv = [script, '-c', 'config.yml', *step[1]]
			code = 0
			try:
				runpy.run_path(script, run_name='__main__')
			except SystemExit as e:
				code = e.code if isinstance(e.code, int) else (0 if e.code is None else 1)
			except BaseException as e:  # noqa
				print(f'{type(e).__name__}: {e}', file=sys.stderr)
				code = 1
			print(f'STEP {i} run exit={code}', flush=True)
			last = code
		elif step[0] == 'write':
			path = step[1]
			os.makedirs(os.path.dirname(path) or '.', exist_ok=True)
			with open(path, 'w', encoding='utf-8', newline='') as f:
				f.write(step[2])
			os.utime(path, (step[3], step[3]))
		elif step[0] == 'touch':
			os.utime(step[1], (step[2], step[2]))
	return 1 if last else 0


if __name__ == '__main__':
	sys.exit(main())
