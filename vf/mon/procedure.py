"""Shadow-stack monitor for rogw.tranp.semantics.procedure.Procedure (invariant at a hook, C09).

Interposes on the real class (name-mangled privates are ordinary attributes): every handler invocation is preceded by a check
that the nodes whose results lie on top of the result stack are exactly the nodes the handled node's declared properties yield,
in source order, list vs single as declared; every exec() must end with exactly the root on its own stack and must leave the
stacks of enclosing exec() calls untouched. The monitor never changes what the procedure computes.
"""
from __future__ import annotations

from collections import Counter

_INSTALLED = [False]
VIOLATIONS: list[tuple[str, str]] = []
COUNTS: Counter = Counter()
HANDLERS: Counter = Counter()
_SHADOWS: dict[int, list[list]] = {}
MAX_KEEP = 20


def reset() -> None:
	VIOLATIONS.clear()
	COUNTS.clear()
	HANDLERS.clear()
	_SHADOWS.clear()


def _report(kind: str, detail: str) -> None:
	if len(VIOLATIONS) < MAX_KEEP:
		VIOLATIONS.append((kind, detail[:1500]))


def same_node(a, b) -> bool:
	try:
		return type(a).__name__ == type(b).__name__ and a.module_path == b.module_path and a.full_path == b.full_path
	except Exception:  # noqa
		return a is b


def expected_children(node) -> tuple[list, dict]:
	"""(flat list of the nodes the declared properties yield in declaration order, per-key shape)"""
	flat = []
	shape = {}
	for key in node.prop_keys():
		v = getattr(node, key)
		if isinstance(v, list):
			shape[key] = list(v)
			flat.extend(v)
		else:
			shape[key] = v
			flat.append(v)
	return flat, shape


def install() -> None:
	if _INSTALLED[0]:
		return
	from rogw.tranp.semantics.procedure import Procedure
	orig_exec = Procedure.exec
	orig_run = Procedure._Procedure__run_action

	def exec_(self, root):
		stacks = _SHADOWS.setdefault(id(self), [])
		outer_snapshot = [list(s) for s in stacks]
		real_outer = [len(s) for s in self._Procedure__stacks]
		stacks.append([])
		ok = False
		try:
			result = orig_exec(self, root)
			ok = True
			return result
		finally:
			own = stacks.pop()
			if ok:
				COUNTS['exec'] += 1
				if len(own) != 1 or not same_node(own[0], root):
					_report('final-stack', f'exec({root!r}) ended with shadow stack {own!r}')
				if [list(s) for s in stacks] != outer_snapshot:
					_report('outer-disturbed', f'nested exec({root!r}) changed the shadow stacks of enclosing runs')
				if [len(s) for s in self._Procedure__stacks] != real_outer:
					_report('outer-disturbed', f'nested exec({root!r}) changed the result stacks of enclosing runs: {real_outer} -> {[len(s) for s in self._Procedure__stacks]}')
			else:
				COUNTS['exec-raised'] += 1

	def run_action(self, node, handler_name):
		stacks = _SHADOWS.get(id(self))
		if not stacks:
			return orig_run(self, node, handler_name)
		shadow = stacks[-1]
		try:
			flat, _ = expected_children(node)
		except Exception as e:  # noqa  (the real code will hit the same error; nothing to judge)
			COUNTS['expected-unavailable'] += 1
			flat = None
		if flat is not None:
			n = len(flat)
			top = shadow[len(shadow) - n:] if n else []
			COUNTS['handler-checked'] += 1
			if len(top) != n or any(not same_node(a, b) for a, b in zip(top, flat)):
				_report('children-mismatch', f'{handler_name} for {node!r}: results on the stack come from {top!r}, the node\'s properties yield {flat!r}')
			real = self._Procedure__stacks[-1]
			if len(real) != len(shadow):
				_report('stack-desync', f'{handler_name} for {node!r}: result stack has {len(real)} entries, {len(shadow)} nodes were processed and not consumed')
			del shadow[len(shadow) - n:]
		HANDLERS[handler_name] += 1
		orig_run(self, node, handler_name)
		shadow.append(node)

	Procedure.exec = exec_  # type: ignore
	Procedure._Procedure__run_action = run_action  # type: ignore
	_INSTALLED[0] = True


def drain(acc, case_fn) -> None:
	"""Move what the monitor saw into an accumulator; case_fn() builds the replay case for violations."""
	for k, v in COUNTS.items():
		acc.see('procedure_monitor', k, v)
	for k, v in HANDLERS.items():
		acc.see('handler', k, v)
	for kind, detail in VIOLATIONS:
		acc.violation('procedure/' + kind, detail, case_fn())
	reset()
