"""Wrapper process entry point: installs an audit hook that appends file-system events to a JSONL log, then runs the real script.

usage: python -m vf.mon.audit_run <log> -- <script> [args...]
Recorded: open (path, mode), os.remove/unlink, os.rename, os.mkdir, os.listdir/scandir, glob.glob. tranp has no C extensions doing
file I/O of their own, so the audit hook sees every access the process makes through the interpreter."""
import json
import os
import runpy
import sys


def main() -> None:
	log_path = sys.argv[1]
	assert sys.argv[2] == '--'
	script = sys.argv[3]
	sys.argv = sys.argv[3:]
	log = open(log_path, 'a', buffering=1)
	watched = {'open', 'os.remove', 'os.rename', 'os.mkdir', 'os.listdir', 'os.scandir', 'glob.glob', 'glob.glob/2', 'os.rmdir', 'shutil.rmtree', 'os.truncate'}

	def hook(event: str, args: tuple) -> None:
		if event not in watched:
			return
		try:
			rec = {'event': event}
			if event == 'open':
				path, mode = args[0], args[1]
				if isinstance(path, int):
					return
				rec['path'] = os.path.abspath(os.fsdecode(path))
				rec['mode'] = mode if isinstance(mode, str) else 'r'
			elif event in ('os.rename',):
				rec['path'] = os.path.abspath(os.fsdecode(args[0]))
				rec['dst'] = os.path.abspath(os.fsdecode(args[1]))
			else:
				p = args[0]
				rec['path'] = os.path.abspath(os.fsdecode(p)) if isinstance(p, (str, bytes, os.PathLike)) else str(p)
			log.write(json.dumps(rec) + '\n')
		except Exception:  # noqa
			pass
	sys.addaudithook(hook)
	sys.path.insert(0, os.path.dirname(os.path.abspath(script)))
	runpy.run_path(script, run_name='__main__')


if __name__ == '__main__':
	main()
