"""Fresh-process oracle for C10: the node class of every entry of ONE tree, resolved in document order in a process that has never seen
another tree. stdin: the module text; stdout: JSON {full path: class | 'raise:<Error>'}.  (cwd = the tranp tree, as for every Session)"""
import json
import sys


def main() -> int:
	from rogw.tranp.errors import Errors
	from vf.session import Session
	from vf.trees import fresh_nodes, parse_to_entry, walk_entries
	text = sys.stdin.read()
	s = Session()
	root = parse_to_entry(s, text)
	nodes, _ = fresh_nodes(s, root)
	out = {}
	for _, _, p in walk_entries(root):
		try:
			node = nodes.by(p)
			out[p] = type(node).__module__ + '.' + type(node).__name__
		except Errors.Error as e:
			out[p] = 'raise:' + type(e).__name__
		except Exception as e:  # noqa
			out[p] = 'crash:' + type(e).__name__
	json.dump(out, sys.stdout)
	return 0


if __name__ == '__main__':
	sys.exit(main())
