"""Logical step budget: counts Python function entries (sys.monitoring PY_START) and raises once a budget is exhausted.
Independent of machine load; a separate wall-clock watchdog around whole subprocesses stays generous and is never a verdict."""
from __future__ import annotations

import sys


class BudgetExceeded(BaseException):
	"""BaseException on purpose: `except Exception` blocks inside tranp must not swallow it."""


class StepBudget:
	TOOL = 4  # a free tool id (0-5 are available to tools; coverage/profilers use 0-2)

	def __init__(self) -> None:
		self.count = 0
		self.limit = 0
		self.active = False
		self.mon = getattr(sys, 'monitoring', None)
		self.installed = False

	def install(self) -> bool:
		if self.mon is None or self.installed:
			return self.installed
		try:
			self.mon.use_tool_id(self.TOOL, 'vf-steps')
		except ValueError:
			return False
		def on_start(code, offset):
			if self.active:
				self.count += 1
				if self.count > self.limit:
					self.active = False
					raise BudgetExceeded()
		self.mon.register_callback(self.TOOL, self.mon.events.PY_START, on_start)
		self.installed = True
		return True

	def __call__(self, limit: int) -> 'StepBudget':
		self.limit = limit
		return self

	def __enter__(self) -> 'StepBudget':
		self.count = 0
		if self.installed:
			self.active = True
			self.mon.set_events(self.TOOL, self.mon.events.PY_START)
		return self

	def __exit__(self, *a) -> None:
		self.active = False
		if self.installed:
			self.mon.set_events(self.TOOL, 0)
