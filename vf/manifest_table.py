def fill(claim, not_yet):
	claim('C18', 'exploration', 'runtime monitoring: real helpers on generated fragments judged by an independent bracket/quote scanner',
		'The real splitting helpers are executed on thousands of generated bracket-balanced fragments per run; an independent scanner (depth and quote state per index) decides every law of the statement. Exploration is the right level: the input space is unbounded text, the oracle is exact per input.',
		'Trusted: vf/oracle/brackets.py (70 lines). Unbalanced </> (comparison operators, ->) and escaped quotes inside literals are outside the quantifier ("simple quoted strings") and not generated.',
		'DESIGN.md §4 C18')
