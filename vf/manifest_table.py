def fill(claim, not_yet):
	claim('C18', 'exploration', 'runtime monitoring: real helpers on generated fragments judged by an independent bracket/quote scanner',
		'The real splitting helpers are executed on thousands of generated bracket-balanced fragments per run; an independent scanner (depth and quote state per index) decides every law of the statement. Exploration is the right level: the input space is unbounded text, the oracle is exact per input.',
		'Trusted: vf/oracle/brackets.py (70 lines). Unbalanced </> (comparison operators, ->) and escaped quotes inside literals are outside the quantifier ("simple quoted strings") and not generated.',
		'DESIGN.md §4 C18')
	claim('C19', 'exploration', 'runtime monitoring: operation histories on real DI/LazyDI containers checked step by step against an executable reference model',
		'Tens of thousands (quick) to over a million (thorough) random bind/unbind/rebind/resolve/can_resolve/invoke/combine histories are applied to real containers and to a 100-line reference model; identity of resolved objects, arguments received by factories, can_resolve answers and exception classes are compared after every step; failing histories are shrunk. A monitor on DI.invoke records which factory names were invoked before on which container.',
		'Trusted: vf/oracle/di_model.py. Domain restrictions (acyclic factories, no bind() on a lazily defined unmaterialised symbol, same-class combine, function/method/class factories only) are listed in the evidence assumptions.',
		'DESIGN.md §4 C19')
	claim('C17', 'exploration', 'runtime monitoring: differential execution of the real LiteralEvaluator / Py2Cpp enum-value emission against CPython evaluating the same module text',
		'Generated constant expressions are planted as enum member values; the real evaluator is run on every member value node and the emitted text of E.X.value is read back from a real transpile; CPython (eval of the expression and execution of the module, two routes that must agree) is the oracle for value and type; refusals must be application errors.',
		'Trusted: CPython eval/exec, ast.literal_eval for decoding string tokens and emitted literals. Outside: expressions CPython itself rejects, string prefixes, enum aliasing; the C++ spelling of triple-quoted / embedded-double-quote string tokens is judged at the evaluator only (string-literal translation belongs to C01).',
		'DESIGN.md §4 C17')
	claim('C13', 'exploration', 'runtime monitoring: real Tokenizer/Lexer on generated sources under layout rewrites, judged by the standard tokenize module and concat/span/balance laws',
		'Each generated block structure is rendered under five layouts; for every text the significant token sequence of the real Tokenizer must equal CPython tokenize output (NEWLINE/INDENT/DEDENT included), be identical across layouts, balance indents and dedents, and the raw lexer tokens must concatenate to the source with spans addressing their own text.',
		'Trusted: tokenize from the standard library (3.13), the renderer in vf/props/c13.py. Lexical subset as listed in the evidence assumptions.',
		'DESIGN.md §4 C13')
	claim('C10', 'exploration', 'runtime monitoring: laws on the real ASTFinder/EntryCache/Nodes checked against an independent walk of the same tree; node classes re-resolved under permuted query orders in fresh Nodes/NodeResolver pairs',
		'Every entry of every tree (generated modules, repository modules, random dict trees with repeated/unique/empty sibling tags) is addressed through full_pathfy/pluck/exists/find and the cache, ids are compared with pre-order positions, parent/children/siblings/ancestor/values with the walk, and the class resolved per path under K random query interleavings with the document-order baseline.',
		'Trusted: vf.trees.walk_entries (15 lines). See evidence assumptions for the clauses deliberately not demanded (unmapped layers skipped by parent, expand heuristic).',
		'DESIGN.md §4 C10')
	claim('C15', 'exploration', 'runtime monitoring: real Serialization.dumps -> JSON text -> loads on parse trees, compared field by field and through Nodes; end-to-end through the real on-disk cache with a monitor on EntryStored.load',
		'Fresh and restored trees are compared entry by entry (name, value, child order, empty slots, spans) and as node trees (path set, node class, tokens, span, id); a sample goes through two fresh applications sharing a scratch cache directory, where a monitor confirms the second one really loaded the stored form.',
		'Trusted: json from the standard library; the Entry view (EntryOfLark) is the comparison surface, as the statement says.',
		'DESIGN.md §4 C15')
	claim('C16', 'exploration', 'runtime monitoring: recorded spans of every node laid over CPython tokenize output of the whole file; real ErrorRender output parsed back',
		'For every entry with a span: no CPython token is cut, the name/number/string/comment tokens inside are exactly the node\'s own tokens, children lie inside parents, identically on the tree restored from the cache encoding; the line, quoted text and caret range printed by ErrorRender for raised errors are compared with the region and with the text of the node\'s first/last token.',
		'Trusted: tokenize (3.13). The self-hosted engine\'s error summaries are checked under C11.',
		'DESIGN.md §4 C16')
	claim('C12', 'exploration', 'runtime monitoring: the real grammar engine run on its own meta-grammar, on both shipped grammars through the real tool code, and on generated rule sets (print -> parse -> rebuild, sentence-level agreement)',
		'Every run re-derives the built-in rules from gram.lark, recompiles both shipped grammars with gram_check.App.render_rules and compares with the checked-in modules (as Python modules and as executed rule sets), then round-trips thousands of generated canonical rule sets through pretty/parse/from_ast with exact structural comparison and checks that original and reparsed rules give the same trees or the same rejection on derived and mutated sentences.',
		'Trusted: the structural comparator (Pattern defines no __eq__) and the sentence deriver in vf/props/c12.py. Generated rule sets avoid in-place recursion / nullable repeats (engine would not terminate; generator bound).',
		'DESIGN.md §4 C12')
	claim('C11', 'exploration', 'runtime monitoring: differential parsing — the real self-hosted engine vs CPython ast on sentences of the shipped grammar, with a logical step budget on the engine\'s matcher and a parser for its error summaries',
		'Sentences following every alternative of py_gram.lark are parsed by SyntaxParser(py_rules()) and by ast.parse, both trees are mapped into one neutral form and compared; mutated sentences must be accepted with a matching tree or rejected with Errors.Syntax whose summary names a token of the input, an existing line and a caret under that token. Rule names seen in the produced trees are reported as coverage.',
		'Trusted: CPython ast, vf/oracle/pycanon.py (two small mappings). The engine is slow on deep sentences, so depth is bounded (<= 4) and a 400k matcher-call budget marks the rest inconclusive.',
		'DESIGN.md §4 C11')
	claim('C02', 'exploration', 'runtime monitoring: differential parsing — the real typed node tree (walked through the nodes\' declared properties) vs CPython ast, both mapped into one neutral tree language including node classification',
		'Generated modules over the Python-compatible productions of data/grammar.lark and every repository module both parsers accept are loaded through the real Entrypoints/NodeResolver; grouping, chaining, call arguments, slices, literals, comprehensions, statement nesting, parameters/defaults/annotations, decorators, bases and the classification of defs and of binding vs referencing occurrences are compared with what ast.parse says.',
		'Trusted: CPython ast, vf/oracle/nodecanon.py. One open finding (chained assignment) is kept out of the random workload by a generator switch and exercised by its committed witness on every run.',
		'DESIGN.md §4 C02')
	claim('C09', 'exploration', 'runtime monitoring: identity-valued Procedure runs (handler arguments compared with the node\'s own properties, nested exec from inside handlers) and a shadow-stack monitor interposed on Procedure.exec/__run_action during real Py2Cpp and Reflections runs',
		'For every node visited the keyword arguments the real Procedure hands to the handler are compared, by node identity, with what the node\'s declared expandable properties yield (keys, single vs list, order); processing must end with exactly the root; nested exec() calls started inside handlers must return their own root and leave the outer stacks untouched. The same invariant is asserted by a shadow stack riding along real transpiles of the fixtures and examples (and, through vf.mon.procedure, along the workloads of other checks).',
		'Trusted: vf/mon/procedure.py (the monitor only observes; it never changes results).',
		'DESIGN.md §4 C09')
