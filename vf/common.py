"""Shared plumbing: seeds, accumulators, sharding over subprocesses, evidence, verdicts."""
from __future__ import annotations

import hashlib
import json
import os
import random
import shutil
import subprocess
import sys
import tempfile
import time
import traceback
from collections import Counter, defaultdict
from typing import Any, Callable

ROOT = os.environ.get('VERIF_ROOT', os.path.dirname(os.path.dirname(os.path.abspath(__file__))))
REPO = os.environ.get('VERIF_REPO', '/repo')
PY = os.environ.get('VERIF_PY', sys.executable)
NCPU = max(1, min(16, os.cpu_count() or 1))


def subseed(*parts: Any) -> int:
	h = hashlib.sha256(repr(parts).encode()).digest()
	return int.from_bytes(h[:8], 'big')


def rng_for(*parts: Any) -> random.Random:
	return random.Random(subseed(*parts))


def sig_of(obj: Any) -> str:
	return hashlib.sha1(repr(obj).encode('utf-8', 'replace')).hexdigest()[:16]


class Ctx:
	def __init__(self, prop: str, tier: str, seed: int, shard: int = 0, nshards: int = 1) -> None:
		self.prop = prop
		self.tier = tier
		self.seed = seed
		self.shard = shard
		self.nshards = nshards
		self.t0 = time.time()
		self.deadline: float | None = None

	@property
	def quick(self) -> bool:
		return self.tier == 'quick'

	def rng(self, *parts: Any) -> random.Random:
		return rng_for(self.seed, self.prop, *parts)

	def mine(self, index: int) -> bool:
		return index % self.nshards == self.shard

	def out_of_time(self) -> bool:
		"""Wall-clock budget that only ever truncates the workload. The first two polls never report exhaustion, so that every shard
		does a minimum of work even on a heavily loaded machine (a run that observed nothing would be inconclusive, not a pass)."""
		self._polls = getattr(self, '_polls', 0) + 1
		if self._polls <= 2:
			return False
		return self.deadline is not None and time.time() > self.deadline


class Acc:
	"""Per-shard accumulator of what the monitors observed."""

	MAX_SAMPLES = 6
	MAX_VIOL = 40

	def __init__(self) -> None:
		self.evaluations = 0
		self.sigs: set[str] = set()
		self.samples: list[Any] = []
		self.violations: list[dict] = []
		self.inconclusive: Counter = Counter()
		self.inconclusive_samples: dict[str, Any] = {}
		self.obs: dict[str, Counter] = defaultdict(Counter)
		self.extra: dict[str, Any] = {}
		self.truncated_by_budget = False

	def case(self, sig: Any = None, sample: Any = None, nontrivial: bool = True) -> None:
		self.evaluations += 1
		if nontrivial and sig is not None:
			self.sigs.add(sig if isinstance(sig, str) and len(sig) == 16 else sig_of(sig))
		if sample is not None and len(self.samples) < self.MAX_SAMPLES:
			self.samples.append(sample)

	def see(self, table: str, key: Any, n: int = 1) -> None:
		self.obs[table][str(key)] += n

	def inconc(self, reason: str, sample: Any = None) -> None:
		self.inconclusive[reason] += 1
		if sample is not None and reason not in self.inconclusive_samples:
			self.inconclusive_samples[reason] = sample

	def violation(self, kind: str, detail: str, case: dict) -> None:
		if len(self.violations) < self.MAX_VIOL:
			self.violations.append({'kind': kind, 'detail': detail[:4000], 'case': case})
		else:
			self.extra['violations_dropped'] = self.extra.get('violations_dropped', 0) + 1

	def to_json(self) -> dict:
		return {
			'evaluations': self.evaluations,
			'sigs': sorted(self.sigs),
			'samples': self.samples,
			'violations': self.violations,
			'inconclusive': dict(self.inconclusive),
			'inconclusive_samples': self.inconclusive_samples,
			'obs': {k: dict(v) for k, v in self.obs.items()},
			'extra': self.extra,
			'truncated_by_budget': self.truncated_by_budget,
		}

	@classmethod
	def merge(cls, parts: list[dict]) -> 'Acc':
		acc = cls()
		for p in parts:
			acc.evaluations += p['evaluations']
			acc.sigs.update(p['sigs'])
			for s in p['samples']:
				if len(acc.samples) < cls.MAX_SAMPLES:
					acc.samples.append(s)
			acc.violations.extend(p['violations'])
			acc.inconclusive.update(p['inconclusive'])
			for k, v in p['inconclusive_samples'].items():
				acc.inconclusive_samples.setdefault(k, v)
			for t, c in p['obs'].items():
				acc.obs[t].update(c)
			for k, v in p['extra'].items():
				if isinstance(v, (int, float)) and isinstance(acc.extra.get(k, 0), (int, float)):
					acc.extra[k] = acc.extra.get(k, 0) + v
				elif isinstance(v, list):
					acc.extra.setdefault(k, [])
					acc.extra[k].extend(v)
				elif isinstance(v, dict):
					acc.extra.setdefault(k, {})
					acc.extra[k].update(v)
				else:
					acc.extra[k] = v
			acc.truncated_by_budget = acc.truncated_by_budget or p.get('truncated_by_budget', False)
		return acc


def run_shards(prop: str, tier: str, seed: int, nshards: int, timeout_s: float) -> tuple[list[dict], list[str]]:
	"""Run `vf.main --shard` in nshards subprocesses; returns (results, problems)."""
	work = tempfile.mkdtemp(prefix=f'vf-{prop}-')
	procs = []
	try:
		for i in range(nshards):
			out = os.path.join(work, f'shard{i}.json')
			log = open(os.path.join(work, f'shard{i}.log'), 'wb')
			cmd = [PY, '-X', 'utf8', '-m', 'vf.main', '--shard', prop, tier, str(seed), str(i), str(nshards), out]
			procs.append((i, out, log, subprocess.Popen(cmd, stdout=log, stderr=subprocess.STDOUT, cwd=REPO)))
		results: list[dict] = []
		problems: list[str] = []
		t_end = time.time() + timeout_s
		for i, out, log, p in procs:
			try:
				p.wait(timeout=max(1.0, t_end - time.time()))
			except subprocess.TimeoutExpired:
				p.kill()
				p.wait()
				problems.append(f'shard {i}: watchdog fired after {timeout_s:.0f}s (inconclusive)')
			log.close()
			if os.path.exists(out):
				try:
					with open(out) as f:
						results.append(json.load(f))
					continue
				except Exception as e:  # noqa
					problems.append(f'shard {i}: unreadable result: {e}')
			else:
				with open(log.name, 'rb') as f:
					tail = f.read()[-3000:].decode('utf-8', 'replace')
				problems.append(f'shard {i}: no result (exit {p.returncode}): {tail}')
		return results, problems
	finally:
		for _, _, log, p in procs:
			if p.poll() is None:
				p.kill()
		shutil.rmtree(work, ignore_errors=True)


def load_known_findings(prop: str) -> list[dict]:
	path = os.path.join(ROOT, 'known_findings.json')
	if not os.path.exists(path):
		return []
	with open(path) as f:
		data = json.load(f)
	return [e for e in data.get('findings', []) if e.get('property') == prop]


def write_replay(prop: str, violation: dict) -> str:
	d = os.path.join(os.environ.get('VERIF_REPLAY_DIR') or os.path.join(ROOT, 'replays'), prop)
	os.makedirs(d, exist_ok=True)
	body = json.dumps(violation, indent=1, sort_keys=True, default=str)
	name = hashlib.sha1(body.encode()).hexdigest()[:12] + '.json'
	path = os.path.join(d, name)
	with open(path, 'w') as f:
		f.write(body)
	return path


def write_evidence(prop: str, tier: str, seed: int, level: str, coverage: dict, assumptions: list[str], wall_s: float, violations: int, extra: dict | None = None) -> str:
	edir = os.environ.get('VERIF_EVIDENCE_DIR') or os.path.join(ROOT, 'evidence')  # (the seeded-change runner points this elsewhere: evidence is about /repo)
	os.makedirs(edir, exist_ok=True)
	path = os.path.join(edir, f'{prop}.json')
	doc = {
		'property_id': prop,
		'tier': tier,
		'seed': seed,
		'level': level,
		'coverage': coverage,
		'assumptions': assumptions,
		'wall_s': round(wall_s, 2),
		'violations': violations,
	}
	if extra:
		doc.update(extra)
	tmp = path + '.tmp'
	with open(tmp, 'w') as f:
		json.dump(doc, f, indent=1, sort_keys=True, default=str)
	os.replace(tmp, path)
	return path


def short(s: str, n: int = 600) -> str:
	return s if len(s) <= n else s[:n] + f'…[{len(s)} chars]'


def fmt_exc(e: BaseException) -> str:
	return ''.join(traceback.format_exception(type(e), e, e.__traceback__))[-3000:]
