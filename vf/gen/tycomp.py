"""Type-composition program generator for C03.

Only inference matters here (nothing is emitted as C++), so the programs are richer in *type structure* than vf.gen.typed: nested
generics, user generic classes and functions, inheritance, properties, classmethods, enums, optionals, comprehensions over
projections of projections. Expressions are found by a breadth-first walk over "projections" of the variables in scope
(`xs[0]`, `d['k0']`, `t[1]`, `o.field`, `o.method(..)`, `o.prop`, `e.value`, `box.get()`, `first(xs)` ...), so compositions such as
"generic method result indexed inside a comprehension" arise by construction.

Run-time safety (the program must run under CPython without raising): every list literal is non-empty and never shrinks, every dict
literal holds the canonical key of its key type and never loses it; variables that may violate this (filtered comprehensions,
re-keyed dict comprehensions) are flagged `loose` and never indexed.
"""
from __future__ import annotations

import random
from dataclasses import dataclass, field

INT, FLOAT, BOOL, STR = ('int',), ('float',), ('bool',), ('str',)
SCALARS = [INT, FLOAT, BOOL, STR]


def ann(t) -> str:
	k = t[0]
	if k in ('int', 'float', 'bool', 'str'):
		return k
	if k == 'list':
		return f'list[{ann(t[1])}]'
	if k == 'dict':
		return f'dict[{ann(t[1])}, {ann(t[2])}]'
	if k == 'tuple':
		return 'tuple[' + ', '.join(ann(x) for x in t[1:]) + ']'
	if k in ('cls', 'enum'):
		return t[1]
	if k == 'box':
		return f'{t[1]}[{ann(t[2])}]'
	if k == 'opt':
		return f'{ann(t[1])} | None'
	raise ValueError(t)


@dataclass
class Klass:
	name: str
	base: 'Klass | None'
	fields: list[tuple[str, tuple]] = field(default_factory=list)
	methods: list[tuple[str, list[tuple[str, tuple]], tuple]] = field(default_factory=list)  # name, params, ret
	props: list[tuple[str, tuple]] = field(default_factory=list)
	classmethods: list[tuple[str, tuple]] = field(default_factory=list)

	def all_fields(self) -> list[tuple[str, tuple]]:
		return (self.base.all_fields() if self.base else []) + self.fields

	def all_methods(self):
		return (self.base.all_methods() if self.base else []) + self.methods

	def all_props(self):
		return (self.base.all_props() if self.base else []) + self.props


@dataclass
class V:
	name: str
	type: tuple
	loose: bool = False   # may be empty / may lack the canonical key


class TyGen:
	def __init__(self, r: random.Random, size: int = 4, opts: dict | None = None) -> None:
		self.r = r
		self.size = size
		self.opts = {'generics': True, 'generic_funcs': True, 'optionals': True, 'nested_funcs': True, 'lambdas': True, 'inherit': True, 'props': True, 'minmax': True,
			'str_methods': True, 'list_ctor': True, 'slices': True, 'mixed_arith': True, 'dict_get': True, 'closures': True, 'more': True, 'lambda_to_generic_func': False, 'optional_to_generic': False}
		self.opts.update(opts or {})
		self.enums: dict[str, tuple[tuple, list[str]]] = {}
		self.classes: dict[str, Klass] = {}
		self.funcs: list[tuple[str, list[tuple[str, tuple]], tuple]] = []
		self.n = 0
		self.lines: list[str] = []
		self.features: set[str] = set()
		self.current: str | None = None

	# -- names / types ---------------------------------------------------------------------------------------------------

	def fresh(self, stem: str) -> str:
		self.n += 1
		return f'{stem}{self.n}'

	def rand_type(self, depth: int = 2, allow_opt: bool = False) -> tuple:
		r = self.r
		x = r.random()
		if depth <= 0 or x < 0.35:
			c = r.random()
			if c < 0.62 or not (self.classes or self.enums):
				return r.choice(SCALARS)
			usable = [c for c in self.classes if c != self.current]
			if c < 0.82 and usable:
				return ('cls', r.choice(usable))
			if self.enums:
				return ('enum', r.choice(list(self.enums)))
			return r.choice(SCALARS)
		if x < 0.55:
			return ('list', self.rand_type(depth - 1))
		if x < 0.72:
			return ('dict', self.key_type(), self.rand_type(depth - 1))
		if x < 0.86:
			return ('tuple', *[self.rand_type(depth - 1) for _ in range(r.choice([2, 2, 3]))])
		if x < 0.95 and self.opts['generics']:
			return ('box', 'Box', self.rand_type(depth - 1))
		if allow_opt and self.opts['optionals']:
			return ('opt', self.rand_type(0))
		return r.choice(SCALARS)

	def key_type(self) -> tuple:
		c = self.r.random()
		if c < 0.5:
			return STR
		if c < 0.85 or not self.enums:
			return INT
		return ('enum', self.r.choice(list(self.enums)))

	def key0(self, k: tuple) -> str:
		if k == STR:
			return "'k0'"
		if k == INT:
			return '0'
		return f'{k[1]}.{self.enums[k[1]][1][0]}'

	def other_key(self, k: tuple) -> str:
		if k == STR:
			return repr('k' + str(self.r.randint(1, 5)))
		if k == INT:
			return str(self.r.randint(1, 9))
		return f'{k[1]}.{self.r.choice(self.enums[k[1]][1])}'

	# -- literals --------------------------------------------------------------------------------------------------------

	def lit(self, t: tuple, depth: int = 3) -> str:
		r = self.r
		k = t[0]
		if k == 'int':
			return str(r.randint(0, 99))
		if k == 'float':
			return r.choice(['0.5', '1.25', '2.0', '7.75', '10.5'])
		if k == 'bool':
			return r.choice(['True', 'False'])
		if k == 'str':
			return repr(r.choice(['a', 'bc', 'x,y', 'Q', 'hello']))
		if k == 'list':
			return '[' + ', '.join(self.lit(t[1], depth - 1) for _ in range(r.choice([1, 2, 2, 3]))) + ']'
		if k == 'dict':
			items = [f'{self.key0(t[1])}: {self.lit(t[2], depth - 1)}']
			seen = {self.key0(t[1])}
			for _ in range(r.choice([0, 1, 2])):
				ok = self.other_key(t[1])
				if ok not in seen:
					seen.add(ok)
					items.append(f'{ok}: {self.lit(t[2], depth - 1)}')
			return '{' + ', '.join(items) + '}'
		if k == 'tuple':
			return '(' + ', '.join(self.lit(x, depth - 1) for x in t[1:]) + ')'
		if k == 'cls':
			return f'{t[1]}()'
		if k == 'enum':
			return f'{t[1]}.{r.choice(self.enums[t[1]][1])}'
		if k == 'box':
			return f'Box({self.lit(t[2], depth - 1)})'
		if k == 'opt':
			return self.lit(t[1], depth - 1)
		raise ValueError(t)

	# -- projections -----------------------------------------------------------------------------------------------------

	def atom(self, text: str) -> str:
		return text

	def projections(self, e: str, t: tuple, loose: bool, simple: bool) -> list[tuple[str, tuple, bool]]:
		"""(expression, type, loose) one step away from `e : t`. `simple` = e is a primary (no parentheses needed)."""
		o = self.opts
		out: list[tuple[str, tuple, bool]] = []
		k = t[0]
		if k == 'list':
			if not loose and simple:
				out.append((f'{e}[0]', t[1], False))
			out.append((f'len({e})', INT, False))
			out.append((f'{e}.copy()', t, loose))
			if o['slices'] and simple:
				out.append((f'{e}[0:1]', t, True))
			if o['more']:
				if not loose:
					if simple:
						out.append((f'{e}[-1]', t[1], False))
					out.append((f'{e}.copy().pop()', t[1], False))
				out.append((f'({e} * 2)', t, loose))
				rr = self.fresh('r_')
				out.append((f'[{rr} for {rr} in reversed({e})]', t, loose))
				if t[1][0] == 'list':
					xx, yy = self.fresh('x_'), self.fresh('y_')
					out.append((f'[{yy} for {xx} in {e} for {yy} in {xx}]', t[1], True))
				if t[1] == STR:
					out.append((f"','.join({e})", STR, False))
		elif k == 'dict':
			if not loose and simple:
				out.append((f'{e}[{self.key0(t[1])}]', t[2], False))
			if o['dict_get']:
				out.append((f'{e}.get({self.key0(t[1])}, {self.lit(t[2], 1)})', t[2], False))
			out.append((f'len({e})', INT, False))
			if o['list_ctor']:
				out.append((f'list({e}.keys())', ('list', t[1]), loose))
				out.append((f'list({e}.values())', ('list', t[2]), loose))
			if o['more']:
				out.append((f'({self.key0(t[1])} in {e})', BOOL, False))
				kk = self.fresh('k_')
				out.append((f'[{kk} for {kk} in {e}]', ('list', t[1]), loose))
				out.append((f'{e}.copy()', t, loose))
				if not loose:
					out.append((f'{e}.copy().pop({self.key0(t[1])})', t[2], False))
		elif k == 'tuple':
			for i, x in enumerate(t[1:]):
				if simple:
					out.append((f'{e}[{i}]', x, False))
		elif k == 'cls':
			c = self.classes[t[1]]
			for f, ft in c.all_fields():
				out.append((f'{e}.{f}', ft, False))
			for m, ps, rt in c.all_methods():
				out.append((f'{e}.{m}(' + ', '.join(self.lit(pt, 1) for _, pt in ps) + ')', rt, False))
			for p, pt in c.all_props():
				out.append((f'{e}.{p}', pt, False))
		elif k == 'enum':
			out.append((f'{e}.value', self.enums[t[1]][0], False))
			out.append((f'{e}.name', STR, False))
			if o['more']:
				out.append((f'{t[1]}({e}.value)', t, False))
				out.append((f'({e} == {t[1]}.A)', BOOL, False))
		elif k == 'opt':
			if o['more']:
				out.append((f'({e} is None)', BOOL, False))
		elif k == 'box':
			out.append((f'{e}.v', t[2], False))
			out.append((f'{e}.get()', t[2], False))
			out.append((f'{e}.pair()', ('tuple', t[2], INT), False))
			out.append((f'{e}.many()', ('list', t[2]), False))
			out.append((f'{e}.keyed()', ('dict', STR, t[2]), False))
			if o['more'] and o['lambdas']:
				ww, w2 = self.fresh('w_'), self.fresh('w_')
				out.append((f'{e}.map_to(lambda {ww}: len(wrap({ww})))', INT, False) if 'gf' in self.features else (f'{e}.map_to(lambda {ww}: 1)', INT, False))
				out.append((f'{e}.then(lambda {w2}: [{w2}])', ('list', t[2]), False))
		elif k == 'str':
			if o['str_methods']:
				out.append((f'{e}.upper()', STR, False))
				out.append((f"{e}.split(',')", ('list', STR), False))
				out.append((f"{e}.startswith('a')", BOOL, False))
				out.append((f"{e}.find('a')", INT, False))
			out.append((f'len({e})', INT, False))
			if o['more']:
				out.append((f'({e} * 2)', STR, False))
				out.append((f"'<{{}}>'.format({e})", STR, False))
		elif k == 'int':
			out.append((f'str({e})', STR, False))
			out.append((f'float({e})', FLOAT, False))
			if o['more']:
				out.append((f'({e} / 2)', FLOAT, False))
				out.append((f'({e} + 0.5)', FLOAT, False))
				out.append((f'(0.5 * {e})', FLOAT, False))
				out.append((f"f'{{{e}}}!'", STR, False)) if '\'' not in e and '"' not in e else None
				out.append((f'({e} > 1)', BOOL, False))
				out.append((f'({e} if {e} > 1 else None)', ('opt', INT), False))
		elif k == 'float':
			out.append((f'int({e})', INT, False))
			out.append((f'str({e})', STR, False))
		if o['generic_funcs'] and 'gf' in self.features:
			if k != 'opt' or o['optional_to_generic']:
				out.append((f'ident({e})', t, loose))
			if k == 'list' and not loose:
				out.append((f'first({e})', t[1], False))
			if k != 'opt':
				out.append((f'wrap({e})', ('list', t), False))
			if k == 'dict' and not loose:
				out.append((f'lookup({e}, {self.key0(t[1])})', t[2], False))
			if o['more'] and k == 'list' and t[1][0] == 'tuple' and len(t[1]) == 3 and (t[1][1] in (INT, STR) or t[1][1][0] == 'enum'):
				out.append((f'to_dict({e})', ('dict', t[1][1], t[1][2]), True))
				out.append((f'dict({e})', ('dict', t[1][1], t[1][2]), True))
				if t[1][2][0] == 'list' and not loose:
					out.append((f'heads({e})', ('tuple', t[1][1], t[1][2][1]), False))
			if o['more'] and k == 'list':
				out.append((f'dict(enumerate({e}))', ('dict', INT, t[1]), True))
			if o['more'] and k == 'dict' and t[1] == STR and t[2][0] == 'tuple' and len(t[2]) == 3 and not loose:
				out.append((f'flip({e})', ('tuple', t[2][2], t[2][1]), False))
			if o['more'] and k != 'opt':
				t2_ = self.r.choice(SCALARS)
				out.append((f'pairup({e}, {self.lit(t2_)})', ('tuple', t, t2_), False))
				if o['lambdas'] and o['lambda_to_generic_func']:
					qq = self.fresh('q_')
					out.append((f'apply(lambda {qq}: [{qq}], {e})', ('list', t), False))
		return out

	def pool(self, env: list[V], depth: int = 3, cap: int = 160) -> list[tuple[str, tuple, bool]]:
		"""typed expressions reachable from the variables in scope"""
		r = self.r
		level = [(v.name, v.type, v.loose) for v in env]
		out = list(level)
		for _ in range(depth):
			nxt = []
			for e, t, loose in level:
				ps = self.projections(e, t, loose, not e.startswith('('))
				r.shuffle(ps)
				nxt.extend(ps[:3])
			r.shuffle(nxt)
			nxt = nxt[:cap // depth]
			out.extend(nxt)
			level = nxt
		return out

	# -- expressions -----------------------------------------------------------------------------------------------------

	def expr(self, t: tuple, env: list[V], depth: int = 2) -> str:
		"""an expression of type t (never loose-indexed)"""
		r = self.r
		cands = [e for e, et, _ in self.pool(env, 2, 90) if et == t]
		x = r.random()
		if cands and x < 0.6:
			return r.choice(cands)
		if depth > 0:
			k = t[0]
			if k == 'int':
				a, b = self.expr(INT, env, depth - 1), self.expr(INT, env, depth - 1)
				c = r.random()
				if c < 0.5:
					return f'({a} {r.choice(["+", "-", "*", "%", "//"]) if False else r.choice(["+", "-", "*"])} {b})'
				if c < 0.65 and self.opts['minmax']:
					return f'{r.choice(["min", "max"])}({a}, {b})'
				if c < 0.75:
					return f'({a} if {self.expr(BOOL, env, depth - 1)} else {b})'
				if c < 0.85:
					return f'abs({a})' if self.opts['minmax'] else a
				return f'-{a}' if not a.startswith('-') else a
			if k == 'float' and self.opts['mixed_arith'] and r.random() < 0.3:
				# flat chains of different operators: every step of the chain is typed with its own operator
				i1, i2 = self.expr(INT, env, 0), self.expr(INT, env, 0)
				return r.choice([f'({i1} * {i2} / {r.randint(1, 9)})', f'({i1} % {r.randint(1, 9)} / {r.randint(1, 9)})', f'(1 + {i1} * {i2} / {r.randint(1, 9)})',
					f'({i1} - {i2} * 2 / 4)', f'({i1} % 2.5)', f'({i1} * 2 % 1.5 + {i2})', f'({i1} + {i2} - 0.5)'])
			if k == 'float':
				a = self.expr(FLOAT, env, depth - 1)
				c = r.random()
				if c < 0.3:
					return f'({a} + {self.expr(FLOAT, env, depth - 1)})'
				if c < 0.5 and self.opts['mixed_arith']:
					return f'({a} * {self.expr(INT, env, depth - 1)})'
				if c < 0.65 and self.opts['mixed_arith']:
					return f'({self.expr(INT, env, depth - 1)} / {r.randint(1, 9)})'
				if c < 0.8 and self.opts['mixed_arith']:
					return f'({self.expr(INT, env, depth - 1)} + {a})'
				return f'({a} if {self.expr(BOOL, env, depth - 1)} else {self.expr(FLOAT, env, depth - 1)})'
			if k == 'bool':
				c = r.random()
				if c < 0.35:
					return f'({self.expr(INT, env, depth - 1)} {r.choice(["<", "<=", "==", "!=", ">"])} {self.expr(INT, env, depth - 1)})'
				if c < 0.5:
					return f'({self.expr(STR, env, depth - 1)} == {self.expr(STR, env, depth - 1)})'
				if c < 0.7:
					return f'({self.expr(BOOL, env, depth - 1)} {r.choice(["and", "or"])} {self.expr(BOOL, env, depth - 1)})'
				if c < 0.8:
					return f'(not {self.expr(BOOL, env, depth - 1)})'
				lists = [(e, et) for e, et, _ in self.pool(env, 1, 40) if et[0] == 'list' and et[1] in SCALARS]
				if lists:
					e, et = r.choice(lists)
					return f'({self.expr(et[1], env, 0)} in {e})'
				return self.lit(BOOL)
			if k == 'str':
				c = r.random()
				if c < 0.4:
					return f'({self.expr(STR, env, depth - 1)} + {self.expr(STR, env, depth - 1)})'
				if c < 0.6:
					return f"f'{{{self.expr(INT, env, 0)}}}-{{{self.expr(STR, env, 0)}}}'".replace("'k0'", '"k0"') if False else f'str({self.expr(INT, env, depth - 1)})'
				return f'({self.expr(STR, env, depth - 1)} if {self.expr(BOOL, env, depth - 1)} else {self.expr(STR, env, depth - 1)})'
			if k == 'list':
				c = r.random()
				if c < 0.5:
					return '[' + ', '.join(self.expr(t[1], env, depth - 1) for _ in range(r.choice([1, 2, 3]))) + ']'
				comp = self.list_comp(t[1], env, depth - 1)
				if comp:
					return comp
			if k == 'dict':
				if r.random() < 0.6:
					return '{' + f'{self.key0(t[1])}: {self.expr(t[2], env, depth - 1)}' + '}'
				comp = self.dict_comp(t, env, depth - 1)
				if comp:
					return comp
			if k == 'tuple':
				return '(' + ', '.join(self.expr(x, env, depth - 1) for x in t[1:]) + ')'
			if k == 'box':
				return f'Box({self.expr(t[2], env, depth - 1)})'
			if k == 'opt':
				return self.expr(t[1], env, depth - 1) if r.random() < 0.6 else 'None'
		if cands:
			return r.choice(cands)
		return self.lit(t) if t[0] != 'opt' else ('None' if r.random() < 0.4 else self.lit(t[1]))

	def iter_sources(self, env: list[V]) -> list[tuple[str, list[tuple[str, tuple]], bool]]:
		"""(for-header target text, iterable text, bound variables, keeps_keys) for every iterable reachable"""
		out = []
		for e, t, loose in self.pool(env, 2, 60):
			if t[0] == 'list':
				a = self.fresh('x')
				out.append((a, e, [(a, t[1])], None))
				i, b = self.fresh('i'), self.fresh('x')
				out.append((f'{i}, {b}', f'enumerate({e})', [(i, INT), (b, t[1])], None))
				if t[1][0] == 'tuple' and len(t[1]) == 3:
					p, q = self.fresh('p'), self.fresh('q')
					out.append((f'{p}, {q}', e, [(p, t[1][1]), (q, t[1][2])], None))
				j = self.fresh('j')
				out.append((j, f'range(len({e}))', [(j, INT)], None))
			elif t[0] == 'dict':
				kk, vv = self.fresh('k'), self.fresh('v')
				out.append((f'{kk}, {vv}', f'{e}.items()', [(kk, t[1]), (vv, t[2])], t))
				k2 = self.fresh('k')
				out.append((k2, f'{e}.keys()', [(k2, t[1])], None))
				v2 = self.fresh('v')
				out.append((v2, f'{e}.values()', [(v2, t[2])], None))
		n = self.fresh('n')
		out.append((n, f'range({self.r.randint(1, 3)})', [(n, INT)], None))
		return out

	def list_comp(self, elem: tuple, env: list[V], depth: int) -> str | None:
		srcs = self.iter_sources(env)
		self.r.shuffle(srcs)
		for target, it, bound, _ in srcs[:6]:
			inner = env + [V(n, t) for n, t in bound]
			body = self.expr(elem, inner, depth)
			if any(n in body for n, _ in bound) or self.r.random() < 0.2:
				return f'[{body} for {target} in {it}]'
		return None

	def dict_comp(self, t: tuple, env: list[V], depth: int) -> str | None:
		srcs = [s for s in self.iter_sources(env) if s[3] is not None and s[3][1] == t[1]]
		if not srcs:
			return None
		target, it, bound, _ = self.r.choice(srcs)
		inner = env + [V(n, tt) for n, tt in bound]
		return '{' + f'{bound[0][0]}: {self.expr(t[2], inner, depth)} for {target} in {it}' + '}'

	# -- statements ------------------------------------------------------------------------------------------------------

	def body(self, env: list[V], n: int, ind: str, nest: int = 0) -> list[str]:
		r = self.r
		out: list[str] = []
		env = list(env)
		for _ in range(n):
			x = r.random()
			pool = self.pool(env, 3, 150)
			if x < 0.30 and pool:
				# un-annotated declaration from a projection chain (resolve_unknown has to find the type)
				e, t, loose = r.choice(pool[len(env):] or pool)
				v = self.fresh('v')
				out.append(f'{ind}{v} = {e}')
				env.append(V(v, t, loose))
			elif x < 0.42:
				t = self.rand_type(2)
				v = self.fresh('v')
				e = self.expr(t, env, 2)
				out.append(f'{ind}{v}: {ann(t)} = {e}' if r.random() < 0.4 else f'{ind}{v} = {e}')
				env.append(V(v, t))
			elif x < 0.50:
				tuples = [(e, t) for e, t, _ in pool if t[0] == 'tuple']
				if not tuples:
					continue
				e, t = r.choice(tuples)
				names = [self.fresh('d') for _ in t[1:]]
				out.append(f'{ind}{", ".join(names)} = {e}')
				env.extend(V(nm, tt) for nm, tt in zip(names, t[1:]) if tt[0] != 'opt')
			elif x < 0.64 and nest < 2:
				srcs = self.iter_sources(env)
				target, it, bound, _ = r.choice(srcs)
				out.append(f'{ind}for {target} in {it}:')
				inner = env + [V(nm, tt) for nm, tt in bound]
				out.extend(self.body(inner, r.choice([1, 2]), ind + '\t', nest + 1))
			elif x < 0.70 and nest < 2:
				out.append(f'{ind}if {self.expr(BOOL, env, 1)}:')
				out.extend(self.body(env, r.choice([1, 2]), ind + '\t', nest + 1))
				if r.random() < 0.5:
					out.append(f'{ind}else:')
					out.extend(self.body(env, 1, ind + '\t', nest + 1))
			elif x < 0.76:
				if nest > 0:
					continue
				lists = [v for v in env if v.type[0] == 'list' and v.name.startswith('v')]
				dicts = [v for v in env if v.type[0] == 'dict' and v.name.startswith('v')]
				if lists and r.random() < 0.6:
					v = r.choice(lists)
					out.append(f'{ind}{v.name}.append({self.expr(v.type[1], env, 1)})')
				elif dicts:
					v = r.choice(dicts)
					out.append(f'{ind}{v.name}[{self.other_key(v.type[1])}] = {self.expr(v.type[2], env, 1)}')
			elif x < 0.84:
				elem = r.choice([INT, STR, FLOAT, self.rand_type(1)])
				if r.random() < 0.7:
					c = self.list_comp(elem, env, 1)
					if c:
						v = self.fresh('v')
						if r.random() < 0.3:
							c = c[:-1] + f' if {self.expr(BOOL, env, 0)}]'
							out.append(f'{ind}{v} = {c}')
							env.append(V(v, ('list', elem), True))
						else:
							out.append(f'{ind}{v} = {c}')
							env.append(V(v, ('list', elem), 'range(' in c and False))
				else:
					t = ('dict', self.key_type(), elem)
					c = self.dict_comp(t, env, 1)
					if c:
						v = self.fresh('v')
						out.append(f'{ind}{v} = {c}')
						env.append(V(v, t))
			elif x < 0.89 and self.opts['nested_funcs'] and nest == 0:
				pt, rt = self.rand_type(1), self.rand_type(1)
				f, a = self.fresh('inner'), self.fresh('a')
				out.append(f'{ind}def {f}({a}: {ann(pt)}) -> {ann(rt)}:')
				inner_env = (env if self.opts['closures'] else []) + [V(a, pt)]
				out.append(f'{ind}\treturn {self.expr(rt, inner_env, 1)}')
				v = self.fresh('v')
				out.append(f'{ind}{v} = {f}({self.expr(pt, env, 1)})')
				env.append(V(v, rt))
			elif x < 0.93 and self.opts['optionals']:
				t = r.choice(SCALARS + [('cls', c) for c in self.classes if c != self.current])
				o = self.fresh('o')
				out.append(f'{ind}{o}: {ann(t)} | None = {r.choice(["None", self.expr(t, env, 1)])}')
				if r.random() < 0.5:
					out.append(f'{ind}{o} = {self.expr(t, env, 1)}')
				env.append(V(o, ('opt', t)))
				w = self.fresh('w')
				out.append(f'{ind}{w} = {o}')
			elif x < 0.97 and self.opts['lambdas']:
				pt, rt = r.choice(SCALARS), self.rand_type(1)
				f, a = self.fresh('fn'), self.fresh('a')
				out.append(f'{ind}{f}: Callable[[{ann(pt)}], {ann(rt)}] = lambda {a}: {self.expr(rt, env + [V(a, pt)], 1)}')
				v = self.fresh('v')
				out.append(f'{ind}{v} = {f}({self.expr(pt, env, 0)})')
				env.append(V(v, rt))
			else:
				funcs = [f for f in self.funcs]
				if funcs:
					fn, ps, rt = r.choice(funcs)
					v = self.fresh('v')
					out.append(f'{ind}{v} = {fn}(' + ', '.join(self.expr(pt, env, 1) for _, pt in ps) + ')')
					env.append(V(v, rt))
		if not out:
			out.append(f'{ind}pass')
		return out

	# -- declarations ----------------------------------------------------------------------------------------------------

	def gen_enum(self) -> None:
		name = f'E{len(self.enums)}'
		vt = self.r.choice([INT, STR])
		members = ['A', 'B', 'C'][:self.r.choice([2, 3])]
		self.lines += [f'class {name}(Enum):'] + [f'\t{m} = {i + 1 if vt == INT else repr(m.lower())}' for i, m in enumerate(members)] + ['', '']
		self.enums[name] = (vt, members)

	def gen_box(self) -> None:
		self.lines += ["T = TypeVar('T')", '', '',
			'class Box(Generic[T]):', '\tv: T', '', '\tdef __init__(self, v: T) -> None:', '\t\tself.v = v', '',
			'\tdef get(self) -> T:', '\t\treturn self.v', '',
			'\tdef pair(self) -> tuple[T, int]:', '\t\treturn (self.v, 1)', '',
			'\tdef many(self) -> list[T]:', '\t\treturn [self.v, self.v]', '',
			'\tdef keyed(self) -> dict[str, T]:', "\t\treturn {'k0': self.v}", '',
			'\tdef map_to(self, f: Callable[[T], int]) -> int:', '\t\treturn f(self.v)', '',
			'\tdef then(self, f: Callable[[T], list[T]]) -> list[T]:', '\t\treturn f(self.v)', '', '']

	def gen_generic_funcs(self) -> None:
		self.lines += ['def ident[T1](v: T1) -> T1:', '\treturn v', '', '',
			'def first[T2](xs: list[T2]) -> T2:', '\treturn xs[0]', '', '',
			'def wrap[T3](v: T3) -> list[T3]:', '\treturn [v]', '', '',
			'def lookup[K4, V4](d: dict[K4, V4], k: K4) -> V4:', '\treturn d[k]', '', '',
			'def pairup[A5, B5](a: A5, b: B5) -> tuple[A5, B5]:', '\treturn (a, b)', '', '',
			'def apply[A6, B6](f: Callable[[A6], B6], a: A6) -> B6:', '\treturn f(a)', '', '',
			'def to_dict[K7, V7](pairs: list[tuple[K7, V7]]) -> dict[K7, V7]:', '\treturn {k: v for k, v in pairs}', '', '',
			'def flip[K8, V8](t: dict[str, tuple[K8, V8]]) -> tuple[V8, K8]:', "\treturn (t['k0'][1], t['k0'][0])", '', '',
			'def heads[A9, B9](rows: list[tuple[A9, list[B9]]]) -> tuple[A9, B9]:', '\treturn (rows[0][0], rows[0][1][0])', '', '']
		self.features.add('gf')

	def gen_class(self) -> None:
		r = self.r
		name = f'C{len(self.classes)}'
		base = None
		if self.classes and self.opts['inherit'] and r.random() < 0.45:
			base = self.classes[r.choice(list(self.classes))]
		k = Klass(name, base)
		for _ in range(r.choice([1, 2, 3])):
			k.fields.append((self.fresh('f'), self.rand_type(2)))
		L = [f'class {name}({base.name}):' if base else f'class {name}:']
		for f, t in k.fields:
			L.append(f'\t{f}: {ann(t)}')
		L += ['', '\tdef __init__(self) -> None:']
		if base:
			L.append('\t\tsuper().__init__()')
		for f, t in k.fields:
			L.append(f'\t\tself.{f} = {self.lit(t)}')
		L.append('')
		self.classes[name] = k
		self.current = name
		env_self = [V('self', ('cls', name))]
		for _ in range(r.choice([1, 2])):
			m = self.fresh('m')
			ps = [(self.fresh('p'), self.rand_type(1)) for _ in range(r.choice([0, 1, 2]))]
			rt = self.rand_type(2)
			L.append(f'\tdef {m}(self' + ''.join(f', {p}: {ann(t)}' for p, t in ps) + f') -> {ann(rt)}:')
			env = env_self + [V(p, t) for p, t in ps]
			L += self.body(env, r.choice([0, 1, 2]), '\t\t') if r.random() < 0.5 else []
			L.append(f'\t\treturn {self.expr(rt, env, 2)}')
			L.append('')
			k.methods.append((m, ps, rt))
		if self.opts['props'] and r.random() < 0.6:
			p = self.fresh('pr')
			pt = self.rand_type(1)
			L += ['\t@property', f'\tdef {p}(self) -> {ann(pt)}:', f'\t\treturn {self.expr(pt, env_self, 1)}', '']
			k.props.append((p, pt))
		if r.random() < 0.5:
			L += ['\t@classmethod', f"\tdef make(cls) -> '{name}':", '\t\treturn cls()', '']
			k.classmethods.append(('make', ('cls', name)))
		self.current = None
		self.lines += L + ['']

	def gen_func(self) -> None:
		r = self.r
		fn = self.fresh('fn')
		ps = [(self.fresh('p'), self.rand_type(2)) for _ in range(r.choice([1, 2, 3]))]
		rt = self.rand_type(2)
		env = [V(p, t) for p, t in ps]
		L = [f'def {fn}(' + ', '.join(f'{p}: {ann(t)}' for p, t in ps) + f') -> {ann(rt)}:']
		L += self.body(env, r.randint(2, 3 + self.size), '\t')
		# the body's variables are not visible here; the return expression is rebuilt from the parameters
		L.append(f'\treturn {self.expr(rt, env, 2)}')
		self.lines += L + ['', '']
		self.funcs.append((fn, ps, rt))

	def program(self) -> tuple[str, list]:
		r = self.r
		self.lines = ['from collections.abc import Callable', 'from enum import Enum', 'from typing import Generic, TypeVar', '', '']
		for _ in range(r.choice([1, 2])):
			self.gen_enum()
		if self.opts['generics']:
			self.gen_box()
		if self.opts['generic_funcs']:
			self.gen_generic_funcs()
		for _ in range(r.choice([1, 2, 3])):
			self.gen_class()
		for _ in range(max(1, self.size // 2)):
			self.gen_func()
		# entry: calls everything with literals
		L = ['def entry(seed: int) -> int:']
		for fn, ps, rt in self.funcs:
			L.append(f'\t{self.fresh("r")} = {fn}(' + ', '.join(self.lit(t) for _, t in ps) + ')')
		for cn, k in self.classes.items():
			o = self.fresh('o')
			L.append(f'\t{o} = {cn}.make()' if k.classmethods and r.random() < 0.5 else f'\t{o} = {cn}()')
			for m, ps, rt in k.all_methods():
				L.append(f'\t{self.fresh("r")} = {o}.{m}(' + ', '.join(self.lit(t) for _, t in ps) + ')')
			for p, pt in k.all_props():
				L.append(f'\t{self.fresh("r")} = {o}.{p}')
		L.append('\treturn seed')
		self.lines += L + ['']
		return '\n'.join(self.lines), [['entry', [[1]]]]
