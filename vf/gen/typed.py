"""Typed program generator for the tranp dialect (used by C01, C03, C04, C05, C06, C08, C14).

Programs are grown top-down under a typing context and stay inside the subset in which Python and C++ agree by construction:
  * ints live in [-LIMIT, LIMIT] whenever they are stored (interval arithmetic decides where `clamp()` is inserted), `%` only on
    non-negative operands with a positive literal modulus, no int/int division, shifts by small literals of non-negative values;
  * floats are small dyadic rationals combined with + - and multiplication/division by literals (exact in float32 and float64);
  * lists / dicts / objects are never aliased and never mutated through a parameter; indices and keys are in range by construction;
  * functions are defined before they are used (the emitted text is a header without forward declarations);
  * dict iteration only feeds order-independent aggregations; argument expressions have no side effects;
  * a list is never modified inside a loop that iterates over it or over range(len(list)) (Python fixes the bound once).
Every program exposes entry functions with scalar parameters plus a set of argument vectors.
"""
from __future__ import annotations

import random
import re
from dataclasses import dataclass, field, replace

LIMIT = 10_000
BIG = 500_000_000

INT, FLOAT, BOOL, STR = ('int',), ('float',), ('bool',), ('str',)


def ann(t) -> str:
	k = t[0]
	if k in ('int', 'float', 'bool', 'str'):
		return k
	if k == 'list':
		return f'list[{ann(t[1])}]'
	if k == 'dict':
		return f'dict[{ann(t[1])}, {ann(t[2])}]'
	if k == 'tuple':
		return 'tuple[' + ', '.join(ann(x) for x in t[1]) + ']'
	if k in ('cls', 'enum'):
		return t[1]
	if k == 'none':
		return 'None'
	raise ValueError(t)


@dataclass
class IntE:
	text: str
	lo: int
	hi: int
	prec: int = 100   # 100 atom/call, 90 unary, 80 * , 70 + -, 60 << >>, 50 &, 45 ^, 40 |, 10 ternary (always parenthesised)

	def at(self, need: int) -> str:
		"""text usable as an operand of an operator of precedence `need`"""
		return self.text if self.prec >= need else f'({self.text})'

	@property
	def nonneg(self) -> bool:
		return self.lo >= 0

	@property
	def mag(self) -> int:
		return max(abs(self.lo), abs(self.hi))


@dataclass
class Var:
	name: str
	type: tuple
	lo: int = -LIMIT
	hi: int = LIMIT
	minlen: int = 0          # lists / strings: statically known minimal length
	keys: tuple = ()         # dicts: keys known to be present
	mutable: bool = True     # parameters and loop variables are read-only
	fresh_obj: bool = False  # object created in this function (may be mutated through its methods)


@dataclass
class Func:
	name: str
	params: list[tuple[str, tuple, str | None]]  # (name, type, default text)
	ret: tuple
	lo: int = -LIMIT
	hi: int = LIMIT
	raises: bool = False
	pure: bool = True


@dataclass
class Cls:
	name: str
	base: str | None
	fields: list[tuple[str, tuple]]       # own fields
	init_params: list[tuple[str, tuple, str | None]]
	methods: list[Func] = field(default_factory=list)
	props: list[Func] = field(default_factory=list)
	classmethods: list[Func] = field(default_factory=list)
	mutators: list[Func] = field(default_factory=list)

	def all_fields(self, classes: dict) -> list[tuple[str, tuple]]:
		base = classes[self.base].all_fields(classes) if self.base else []
		return base + self.fields


@dataclass
class Entry:
	name: str
	params: list[tuple[str, tuple]]
	ret: tuple
	vectors: list[list]


@dataclass
class Program:
	source: str
	entries: list[Entry]
	classes: dict
	enums: dict
	features: set
	helpers: list[str]


NAMES_INT = ['n', 'm', 'k', 'a', 'b', 'c', 'cnt', 'acc', 'idx', 'val', 'num', 'tot']
NAMES_STR = ['s', 't', 'u', 'txt', 'lbl', 'word']
NAMES_FLOAT = ['f', 'g', 'ratio', 'w']
NAMES_BOOL = ['ok', 'flag', 'done', 'hit']
NAMES_LIST = ['xs', 'ys', 'zs', 'items', 'vals', 'seq']
NAMES_DICT = ['d', 'table', 'mp', 'reg']
NAMES_OBJ = ['p', 'q', 'obj', 'it', 'node']
STR_LITS = ["'a'", "'b'", "'ab'", "'xyz'", "'k1'", "''", "'hello'", "'Q'"]
FLOAT_LITS = ['0.5', '1.5', '2.0', '0.25', '4.0', '1.0', '3.0']


class TypedGen:
	def __init__(self, r: random.Random, size: int = 6, opts: dict | None = None) -> None:
		self.r = r
		self.size = size
		self.f: set[str] = set()
		self.funcs: dict[str, Func] = {}
		self.classes: dict[str, Cls] = {}
		self.enums: dict[str, list[tuple[str, int]]] = {}
		self.lines: list[str] = []
		self.uid = 0
		self.observing = False
		self.enum_n = 0
		# switches for constructs behind open findings / not yet supported (see callers)
		self.o = {
			'not_cmp': True, 'cmp_chain': True, 'bit_vs_cmp': True, 'dict_get': True, 'len_arith': True, 'double_neg': True,
			'enumerate': True, 'closures': True, 'lambdas': True, 'try': True, 'classes': True, 'enums': True, 'floats': True,
			'str_slice': True, 'list_slice': True, 'comps': True, 'tuples': True, 'dicts': True, 'props': True, 'classmethods': True, 'inherit': True,
			'defaults': True, 'str_methods': True, 'while': True, 'list_methods': True, 'nested_ternary': True,
			'destructure_literal': True, 'str_lit_concat': True, 'range_bound_mutation': False, 'enum_value': True, 'mixed_chain': True, 'list_fill': True, 'observe': True, 'enumerate_index_reuse': False,
		}
		if opts:
			self.o.update(opts)

	# ------------------------------------------------------------------ helpers
	def fresh(self, pool: list[str], scope: dict) -> str:
		for _ in range(20):
			n = self.r.choice(pool)
			if n not in scope and n not in self.funcs and n not in self.classes and n not in self.enums:
				return n
		for _ in range(50):
			self.uid += 1
			n = f'{pool[0]}{self.uid}'
			if n not in scope and n not in self.funcs and n not in self.classes and n not in self.enums:
				return n
		raise RuntimeError('no fresh name')

	def emit(self, line: str) -> None:
		self.lines.append(line)

	# ------------------------------------------------------------------ int expressions with interval tracking
	def clampi(self, e: IntE) -> IntE:
		if -LIMIT <= e.lo and e.hi <= LIMIT:
			return e
		self.f.add('clamp')
		return IntE(f'clamp({e.text})', max(e.lo, -LIMIT), min(e.hi, LIMIT), 100)

	def safe(self, e: IntE) -> IntE:
		"""keep intermediate results far away from 32-bit overflow"""
		if e.mag > BIG:
			return self.clampi(e)
		return e

	def paren(self, text: str) -> str:
		return text if text.replace('_', 'a').isalnum() or (text.endswith(')') and text.count('(') == 1 and text.split('(')[0].replace('_', 'a').replace('.', 'a').isalnum()) else f'({text})'

	def int_atom(self, scope: dict) -> IntE:
		r = self.r
		cands = [v for v in scope.values() if v.type == INT]
		x = r.random()
		if cands and x < 0.55:
			v = r.choice(cands)
			return IntE(v.name, v.lo, v.hi)
		if x < 0.82:
			n = r.choice([0, 1, 2, 3, 5, 7, 10, 12, 100, 255])
			return IntE(str(n), n, n)
		if x < 0.86 and self.enums and self.o['enum_value']:
			en = r.choice(list(self.enums))
			m, val = r.choice(self.enums[en])
			self.f.add('enum.value')
			return IntE(f'{en}.{m}.value', val, val)
		# derived atoms
		lists = [v for v in scope.values() if v.type[0] in ('list', 'str', 'dict')]
		if lists:
			v = r.choice(lists)
			self.f.add('len')
			return IntE(f'len({v.name})', 0, 40)
		objs = [v for v in scope.values() if v.type[0] == 'cls']
		if objs:
			v = r.choice(objs)
			cf = [(fn, ft) for fn, ft in self.classes[v.type[1]].all_fields(self.classes) if ft == INT]
			if cf:
				self.f.add('field-read')
				return IntE(f'{v.name}.{r.choice(cf)[0]}', -LIMIT, LIMIT)
		n = r.choice([4, 6, 9])
		return IntE(str(n), n, n)

	def int_expr(self, scope: dict, d: int) -> IntE:
		r = self.r
		if d <= 0 or r.random() < 0.25:
			return self.int_atom(scope)
		x = r.random()
		if x < 0.42:
			op = r.choice(['+', '-', '*', '+', '-'])
			a, b = self.safe(self.int_expr(scope, d - 1)), self.safe(self.int_expr(scope, d - 1))
			if op == '*':
				if a.mag * b.mag > BIG:
					a, b = self.clampi(a), self.clampi(b)
				prods = [a.lo * b.lo, a.lo * b.hi, a.hi * b.lo, a.hi * b.hi]
				self.f.add('op:*')
				return IntE(f'{a.at(80)} * {b.at(81)}', min(prods), max(prods), 80)
			self.f.add('op:' + op)
			if op == '+':
				return IntE(f'{a.at(70)} + {b.at(71)}', a.lo + b.lo, a.hi + b.hi, 70)
			return IntE(f'{a.at(70)} - {b.at(71)}', a.lo - b.hi, a.hi - b.lo, 70)
		if x < 0.52:
			a = self.nonneg(scope, d - 1)
			m = r.choice([2, 3, 5, 7, 10, 16])
			self.f.add('op:%')
			return IntE(f'{a.at(80)} % {m}', 0, m - 1, 80)
		if x < 0.64:
			op = r.choice(['&', '|', '^'])
			a, b = self.nonneg(scope, d - 1), self.nonneg(scope, d - 1)
			a, b = self.clampi(a), self.clampi(b)
			self.f.add('op:' + op)
			hi = (1 << max(a.hi, b.hi, 1).bit_length()) - 1
			pr = {'&': 50, '^': 45, '|': 40}[op]
			return IntE(f'{a.at(pr)} {op} {b.at(pr + 1)}', 0, hi if op != '&' else min(a.hi, b.hi), pr)
		if x < 0.71:
			a = self.clampi(self.nonneg(scope, d - 1))
			k = r.choice([1, 2, 3, 4])
			op = r.choice(['<<', '>>'])
			self.f.add('op:' + op)
			return IntE(f'{a.at(60)} {op} {k}', 0, a.hi << k if op == '<<' else a.hi >> k, 60)
		if x < 0.77:
			a = self.safe(self.int_expr(scope, d - 1))
			self.f.add('unary:-')
			inner = a.at(90)
			if inner.startswith('-') and not self.o['double_neg']:
				inner = f'({inner})'
			return IntE(f'-{inner}', -a.hi, -a.lo, 90)
		if x < 0.87:
			c = self.bool_expr(scope, d - 1)
			a, b = self.int_expr(scope, d - 1), self.int_expr(scope, d - 1)
			self.f.add('ternary')
			return IntE(f'({a.text} if {c} else {b.at(11)})', min(a.lo, b.lo), max(a.hi, b.hi), 100)
		return self.int_call(scope, d)

	def nonneg(self, scope: dict, d: int) -> IntE:
		e = self.int_expr(scope, d)
		if e.nonneg:
			return e
		self.f.add('abs')
		e = self.clampi(e)
		return IntE(f'absi({e.text})', 0, e.mag, 100)

	def args_for(self, fn: Func, scope: dict, d: int, skip_self: bool = False) -> str | None:
		parts = []
		for i, (pn, pt, dv) in enumerate(fn.params):
			if dv is not None and self.r.random() < 0.4:
				break
			e = self.expr(pt, scope, max(0, d - 1), for_arg=True)
			if e is None:
				return None
			parts.append(e)
		return ', '.join(parts)

	def int_call(self, scope: dict, d: int) -> IntE:
		r = self.r
		cands = [f for f in self.funcs.values() if f.ret == INT and f.pure and not f.raises]
		objs = [v for v in scope.values() if v.type[0] == 'cls']
		x = r.random()
		if objs and x < 0.4:
			v = r.choice(objs)
			cls = self.classes[v.type[1]]
			meths = [m for c in self.mro(cls) for m in c.methods if m.ret == INT] + [p for c in self.mro(cls) for p in c.props if p.ret == INT]
			if meths:
				m = r.choice(meths)
				if any(m is p for c in self.mro(cls) for p in c.props):
					self.f.add('property-read')
					return IntE(f'{v.name}.{m.name}', m.lo, m.hi)
				a = self.args_for(m, scope, d)
				if a is not None:
					self.f.add('method-call')
					return IntE(f'{v.name}.{m.name}({a})', m.lo, m.hi)
		if cands:
			fn = r.choice(cands)
			a = self.args_for(fn, scope, d)
			if a is not None:
				self.f.add('call')
				return IntE(f'{fn.name}({a})', fn.lo, fn.hi)
		return self.int_atom(scope)

	def mro(self, cls: Cls) -> list[Cls]:
		out = [cls]
		while out[-1].base:
			out.append(self.classes[out[-1].base])
		return out

	# ------------------------------------------------------------------ other scalar expressions
	def bool_expr(self, scope: dict, d: int) -> str:
		r = self.r
		x = r.random()
		bools = [v for v in scope.values() if v.type == BOOL]
		if d <= 0 or x < 0.35:
			a, b = self.clampi(self.int_expr(scope, 0)), self.clampi(self.int_expr(scope, 0))
			op = r.choice(['<', '>', '==', '!=', '<=', '>='])
			self.f.add('cmp:' + op)
			return f'{a.at(40)} {op} {b.at(40)}'
		if bools and x < 0.45:
			return r.choice(bools).name
		if x < 0.6:
			op = r.choice(['and', 'or'])
			self.f.add('bool:' + op)
			a, b = self.bool_expr(scope, d - 1), self.bool_expr(scope, d - 1)
			# mixed and/or: python and C++ agree on precedence (and binds tighter); keep both shapes
			if r.random() < 0.5:
				a = f'({a})'
			if r.random() < 0.5:
				b = f'({b})'
			return f'{a} {op} {b}'
		if x < 0.7:
			self.f.add('not')
			inner = self.bool_expr(scope, d - 1)
			if self.o['not_cmp'] and r.random() < 0.5 and ' and ' not in inner and ' or ' not in inner:
				self.f.add('not-before-comparison')
				return f'not {inner}'
			return f'not ({inner})'
		if x < 0.78 and self.o['cmp_chain']:
			a, b, c = (self.clampi(self.int_expr(scope, 0)) for _ in range(3))
			o1, o2 = r.choice(['<', '<=', '==', '!=', '>']), r.choice(['<', '<=', '>=', '!='])
			self.f.add('cmp-chain')
			return f'{a.at(40)} {o1} {b.at(40)} {o2} {c.at(40)}'
		if x < 0.84 and self.o['bit_vs_cmp']:
			a, b = self.clampi(self.nonneg(scope, 0)), self.clampi(self.nonneg(scope, 0))
			c = self.clampi(self.nonneg(scope, 0))
			op = r.choice(['&', '|', '^'])
			self.f.add('bitwise-vs-comparison')
			return f'({a.at(51)} {op} {b.at(51)}) {r.choice(["==", "!=", "<", ">"])} {c.at(61)}' if r.random() < 0.5 else f'{c.at(61)} {r.choice(["==", "!="])} ({a.at(51)} {op} {b.at(51)})'
		strs = [v for v in scope.values() if v.type == STR]
		if strs and x < 0.9:
			s = r.choice(strs)
			y = r.random()
			if y < 0.4 and self.o['str_methods']:
				self.f.add('str.startswith')
				return f'{s.name}.{r.choice(["startswith", "endswith"])}({r.choice(STR_LITS[:5])})'
			self.f.add('str-cmp')
			return f'{s.name} {r.choice(["==", "!="])} {r.choice(STR_LITS)}'
		lists = [v for v in scope.values() if v.type == ('list', INT)]
		if lists and x < 0.95:
			self.f.add('in-list')
			e = self.clampi(self.int_expr(scope, 0))
			return f'{e.at(40)} {r.choice(["in", "not in"])} {r.choice(lists).name}'
		dicts = [v for v in scope.values() if v.type[0] == 'dict' and v.type[1] == STR]
		if dicts:
			self.f.add('in-dict')
			return f'{r.choice(STR_LITS[:5])} {r.choice(["in", "not in"])} {r.choice(dicts).name}'
		a = self.clampi(self.int_expr(scope, 0))
		return f'{a.at(40)} > 0'

	def float_expr(self, scope: dict, d: int) -> str:
		r = self.r
		floats = [v for v in scope.values() if v.type == FLOAT]
		x = r.random()
		if d <= 0 or x < 0.3:
			if floats and r.random() < 0.6:
				return r.choice(floats).name
			return r.choice(FLOAT_LITS)
		self.f.add('float-arith')
		if x < 0.42 and self.o['mixed_chain']:
			# flat chain mixing int and float operands (the float anywhere in it): the whole chain is a float in both languages
			self.f.add('float-int-chain')
			ia, ib = self.clampi(self.int_atom(scope)), self.clampi(self.int_atom(scope))
			fx = self.float_expr(scope, 0)
			o1, o2 = r.choice(['+', '-']), r.choice(['+', '-'])
			return r.choice([f'{ia.at(71)} {o1} {fx} {o2} {ib.at(71)}', f'{fx} {o1} {ia.at(71)} {o2} {ib.at(71)}', f'{ia.at(71)} {o1} {ib.at(71)} {o2} {fx}'])
		if x < 0.55:
			return f'{self.float_expr(scope, d - 1)} {r.choice(["+", "-"])} {self.float_expr(scope, 0)}'
		if x < 0.75:
			return f'({self.float_expr(scope, d - 1)}) * {r.choice(["0.5", "2.0", "1.5", "4.0"])}'
		if x < 0.85:
			return f'({self.float_expr(scope, d - 1)}) / {r.choice(["2.0", "4.0"])}'
		self.f.add('cast:float')
		e = self.clampi(self.int_expr(scope, 1))
		return f'float({e.text})'

	def str_expr(self, scope: dict, d: int) -> tuple[str, int]:
		"""(text, minimal length)"""
		r = self.r
		strs = [v for v in scope.values() if v.type == STR]
		x = r.random()
		if d <= 0 or x < 0.3:
			if strs and r.random() < 0.6:
				v = r.choice(strs)
				return v.name, v.minlen
			lit = r.choice(STR_LITS)
			return lit, len(lit) - 2
		if x < 0.6:
			self.f.add('str-concat')
			a, b = self.str_expr(scope, d - 1), self.str_expr(scope, d - 1)
			if a[0].startswith("'") and a[0].endswith("'") and a[0].count("'") == 2 and b[0].startswith("'") and b[0].count("'") == 2:
				if not self.o['str_lit_concat']:
					return a
				self.f.add('str-literal+literal')
			return f'{a[0]} + {b[0]}', a[1] + b[1]
		if x < 0.8:
			self.f.add('cast:str')
			e = self.clampi(self.int_expr(scope, 1))
			return f'str({e.text})', 1
		if x < 0.9 and self.o['str_slice']:
			# only variables can be indexed in the dialect ('abc'[1:] and (a + b)[1:] are refused by the node model)
			cand = [v for v in strs if v.minlen >= 2]
			if cand:
				v = r.choice(cand)
				self.f.add('str-slice')
				lo = r.choice([0, 1])
				return f'{v.name}[{lo}:]', v.minlen - lo
			return self.str_expr(scope, d - 1)
		enums = list(self.enums)
		if enums and self.o['enums']:
			self.f.add('enum.name')
			en = r.choice(enums)
			m = r.choice(self.enums[en])[0]
			return f'{en}.{m}.name', len(m)
		return self.str_expr(scope, 0)

	def expr(self, t: tuple, scope: dict, d: int, for_arg: bool = False) -> str | None:
		"""An expression of type t (None when this context cannot make one)."""
		r = self.r
		k = t[0]
		if k == 'int':
			return self.clampi(self.int_expr(scope, d)).text
		if k == 'bool':
			return self.bool_expr(scope, d)
		if k == 'float':
			return self.float_expr(scope, min(d, 2))
		if k == 'str':
			return self.str_expr(scope, d)[0]
		cands = [v for v in scope.values() if v.type == t]
		if k == 'enum':
			if cands and r.random() < 0.4:
				return r.choice(cands).name
			self.f.add('enum-member')
			return f'{t[1]}.{r.choice(self.enums[t[1]])[0]}'
		if k == 'list':
			if cands and (for_arg or r.random() < 0.3):
				return r.choice(cands).name if for_arg else None
			if t[1][0] in ('int', 'str', 'float', 'bool', 'enum'):
				n = r.choice([1, 2, 3, 4])
				self.f.add('list-literal')
				return '[' + ', '.join(self.expr(t[1], scope, max(0, d - 1)) for _ in range(n)) + ']'
			return None
		if k == 'dict':
			if cands and for_arg:
				return r.choice(cands).name
			if t[1] == STR:
				keys = r.sample(["'a'", "'b'", "'k1'", "'xyz'"], r.choice([1, 2, 3]))
				self.f.add('dict-literal')
				return '{' + ', '.join(f'{kk}: {self.expr(t[2], scope, max(0, d - 1))}' for kk in keys) + '}'
			return None
		if k == 'tuple':
			self.f.add('tuple-literal')
			parts = [self.expr(x, scope, max(0, d - 1)) for x in t[1]]
			if any(p is None for p in parts):
				return None
			return '(' + ', '.join(parts) + ')'
		if k == 'cls':
			if cands and for_arg:
				return r.choice(cands).name
			cls = self.classes[t[1]]
			args = []
			for pn, pt, dv in cls.init_params:
				if dv is not None and r.random() < 0.4:
					break
				a = self.expr(pt, scope, max(0, d - 1), for_arg=True)
				if a is None:
					return None
				args.append(a)
			self.f.add('construct')
			return f'{t[1]}(' + ', '.join(args) + ')'
		return None

	# ------------------------------------------------------------------ statements
	def declare(self, scope: dict, t: tuple, ind: str, name: str | None = None, annotate: bool | None = None) -> Var | None:
		r = self.r
		pool = {'int': NAMES_INT, 'str': NAMES_STR, 'float': NAMES_FLOAT, 'bool': NAMES_BOOL, 'list': NAMES_LIST, 'dict': NAMES_DICT}.get(t[0], NAMES_OBJ)
		name = name or self.fresh(pool, scope)
		v = Var(name, t)
		if t == INT:
			e = self.clampi(self.int_expr(scope, r.choice([1, 2, 2, 3])))
			text, v.lo, v.hi = e.text, e.lo, e.hi
		elif t == STR:
			text, v.minlen = self.str_expr(scope, r.choice([1, 2]))
		elif t[0] == 'list' and t[1][0] in ('int', 'str', 'float', 'bool') and self.o['list_fill'] and r.random() < 0.15:
			# list fill: [v] * n / n * [v]
			n = r.choice([1, 2, 3, 4])
			elem = self.expr(t[1], scope, 1)
			text = f'[{elem}] * {n}' if r.random() < 0.7 else f'{n} * [{elem}]'
			v.minlen = n
			self.f.add('list-fill')
			if annotate is None and r.random() < 0.3:
				annotate = False
		else:
			text = self.expr(t, scope, 2)
			if text is None:
				return None
			if t[0] == 'list' and text.startswith('['):
				v.minlen = text.count(',') + 1 if text != '[]' else 0
			if t[0] == 'dict' and text.startswith('{'):
				v.keys = tuple(p.split(':')[0].strip() for p in text[1:-1].split(', ') if ':' in p and p.split(':')[0].strip().startswith("'"))
			if t[0] == 'cls':
				v.fresh_obj = True
		ann_needed = annotate if annotate is not None else (t[0] in ('list', 'dict') or r.random() < 0.3)
		if t[0] in ('list', 'dict') and text in ('[]', '{}'):
			ann_needed = True
		self.emit(f'{ind}{name}{": " + ann(t) if ann_needed else ""} = {text}')
		if ann_needed:
			self.f.add('anno-assign')
		scope[name] = v
		return v

	def stmt(self, scope: dict, ind: str, d: int, ret: tuple | None, in_loop: bool) -> None:
		r = self.r
		x = r.random()
		ints = [v for v in scope.values() if v.type == INT and v.mutable]
		if x < 0.2:
			t = r.choice([INT, INT, INT, STR, BOOL] + ([FLOAT] if self.o['floats'] else []))
			self.declare(scope, t, ind)
			return
		if x < 0.3:
			choices = [('list', INT)]
			if self.o['dicts']:
				choices.append(('dict', STR, INT))
			if self.o['classes'] and self.classes:
				choices.append(('cls', r.choice(list(self.classes))))
			if self.o['tuples']:
				choices.append(('tuple', (INT, STR)))
			if self.o['enums'] and self.enums:
				choices.append(('enum', r.choice(list(self.enums))))
			self.declare(scope, r.choice(choices), ind)
			return
		if x < 0.42 and ints:
			v = r.choice(ints)
			y = r.random()
			if y < 0.5:
				e = self.clampi(self.int_expr(scope, 2))
				self.emit(f'{ind}{v.name} = {e.text}')
				v.lo, v.hi = (min(v.lo, e.lo), max(v.hi, e.hi)) if in_loop else (e.lo, e.hi)
				self.f.add('reassign')
			else:
				op = r.choice(['+=', '-=', '*='])
				e = self.clampi(self.int_expr(scope, 1))
				if op == '*=':
					e = IntE(str(r.choice([2, 3])), 2, 3)
				self.emit(f'{ind}{v.name} {op} {e.text}')
				self.emit(f'{ind}{v.name} = clamp({v.name})')
				v.lo, v.hi = -LIMIT, LIMIT
				self.f.add('aug:' + op)
			return
		if x < 0.58 and d > 0:
			self.if_stmt(scope, ind, d, ret, in_loop)
			return
		if x < 0.72 and d > 0:
			self.loop(scope, ind, d, ret)
			return
		if x < 0.8:
			self.container_stmt(scope, ind)
			return
		if x < 0.86:
			self.object_stmt(scope, ind)
			return
		if x < 0.9 and in_loop:
			c = self.bool_expr(scope, 1)
			self.emit(f'{ind}if {c}:')
			self.emit(f'{ind}\t{r.choice(["break", "continue"])}')
			self.f.add('break/continue')
			return
		if x < 0.94 and self.o['tuples']:
			a, b = self.fresh(NAMES_INT, scope), self.fresh(NAMES_STR, scope)
			if a != b:
				e = self.expr(('tuple', (INT, STR)), scope, 1)
				if not self.o['destructure_literal']:
					tv = self.fresh(['pair', 'tup', 'duo'], scope)
					self.emit(f'{ind}{tv} = {e}')
					scope[tv] = Var(tv, ('tuple', (INT, STR)))
					e = tv
				else:
					self.f.add('destructure-literal')
				self.emit(f'{ind}{a}, {b} = {e}')
				scope[a] = Var(a, INT)
				scope[b] = Var(b, STR)
				self.f.add('destructure')
			return
		if x < 0.97 and self.o['try'] and d > 0 and ret is not None:
			self.try_stmt(scope, ind, d, ret, in_loop)
			return
		self.declare(scope, INT, ind)

	def block(self, scope: dict, ind: str, d: int, ret: tuple | None, in_loop: bool, n: int | None = None) -> None:
		# a block may not run: what it learns (keys stored, elements appended, intervals) lives on copies and is merged back conservatively
		inner = {k: replace(v) for k, v in scope.items()}
		start = len(self.lines)
		for _ in range(n or self.r.choice([1, 2, 2, 3])):
			self.stmt(inner, ind, d, ret, in_loop)
		if len(self.lines) == start:
			self.emit(f'{ind}pass')
		elif self.observing and not self.lines[-1].strip().startswith(('return', 'break', 'continue', 'raise')):
			for name, v in inner.items():
				if name not in scope:
					self.fold(v, ind)
		# variables declared inside do not leak; assignments to outer ints widen the outer interval
		for name, v in inner.items():
			if name in scope and v.type == INT:
				scope[name].lo, scope[name].hi = min(scope[name].lo, v.lo), max(scope[name].hi, v.hi)
			if name in scope and v.type[0] in ('list', 'str'):
				scope[name].minlen = min(scope[name].minlen, v.minlen)
			if name in scope and v.type[0] == 'dict':
				scope[name].keys = tuple(k for k in scope[name].keys if k in v.keys)

	def if_stmt(self, scope: dict, ind: str, d: int, ret: tuple | None, in_loop: bool) -> None:
		r = self.r
		self.f.add('if')
		self.emit(f'{ind}if {self.bool_expr(scope, 2)}:')
		self.block(scope, ind + '\t', d - 1, ret, in_loop)
		for _ in range(r.choice([0, 0, 1, 2])):
			self.f.add('elif')
			self.emit(f'{ind}elif {self.bool_expr(scope, 1)}:')
			self.block(scope, ind + '\t', d - 1, ret, in_loop)
		if r.random() < 0.5:
			self.f.add('else')
			self.emit(f'{ind}else:')
			self.block(scope, ind + '\t', d - 1, ret, in_loop)

	def loop(self, scope: dict, ind: str, d: int, ret: tuple | None) -> None:
		r = self.r
		x = r.random()
		lists = [v for v in scope.values() if v.type == ('list', INT)]
		dicts = [v for v in scope.values() if v.type == ('dict', STR, INT)]
		# the body may run zero times: it works on copies, merged back conservatively below
		inner = {k: replace(v) for k, v in scope.items()}
		if x < 0.35:
			i = self.fresh(['i', 'j', 'r'], scope)
			y = r.random()
			if y < 0.4:
				n = r.choice([2, 3, 5, 8])
				head, hi = f'range({n})', n - 1
				lo = 0
			elif y < 0.6:
				a, b, st = r.choice([0, 1, 2]), r.choice([5, 7, 9]), r.choice([1, 2, 3])
				head, lo, hi = f'range({a}, {b}, {st})' if st != 1 or r.random() < 0.25 else f'range({a}, {b})', a, b
			elif y < 0.8 and lists:
				bound_list = r.choice(lists)
				head, lo, hi = f'range(len({bound_list.name}))', 0, 40
				# Python evaluates the bound once, the emitted for statement re-evaluates it: the list that bounds the loop is read-only in the body
				inner[bound_list.name] = Var(bound_list.name, bound_list.type, minlen=0, mutable=False)
			else:
				e = self.clampi(self.nonneg(scope, 1))
				head, lo, hi = f'range({e.at(80)} % 6)', 0, 5
			self.f.add('for-range')
			self.emit(f'{ind}for {i} in {head}:')
			inner[i] = Var(i, INT, lo, hi, mutable=False)
			accs = [v for v in inner.values() if v.type == INT and v.mutable and v.name in scope and not re.search(rf'\b{v.name}\b', head)]
			if accs and r.random() < 0.6:
				# the trip count and the values of the loop variable reach the result
				a0 = r.choice(accs)
				self.emit(f'{ind}\t{a0.name} = clamp({a0.name} + {i})')
				self.f.add('for-range-accumulate')
			if not self.o['range_bound_mutation']:
				# Python evaluates the bound once, the emitted for statement re-evaluates it every iteration (open finding
				# range-bound-reevaluated-each-iteration): whatever the bound mentions is read-only in the body
				import re as _re
				for name, v in list(inner.items()):
					if name != i and _re.search(rf'\b{name}\b', head):
						inner[name] = replace(v, mutable=False, fresh_obj=False)
		elif x < 0.55 and lists:
			e = self.fresh(['x', 'e', 'item'], scope)
			lst = r.choice(lists)
			if self.o['enumerate'] and r.random() < 0.4:
				i = self.fresh(['i', 'j', 'pos'], scope)
				if not self.o['enumerate_index_reuse']:
					# open finding enumerate-index-redeclared: the index of an enumerate loop is declared in the enclosing C++ scope, a
					# second loop with the same index name in that scope does not compile - index names are unique per program here
					self.enum_n += 1
					i = f'{i}{self.enum_n}'
				self.f.add('for-enumerate')
				self.emit(f'{ind}for {i}, {e} in enumerate({lst.name}):')
				inner[i] = Var(i, INT, 0, 40, mutable=False)
			else:
				self.f.add('for-list')
				self.emit(f'{ind}for {e} in {lst.name}:')
			inner[e] = Var(e, INT, mutable=False)
			inner[lst.name] = Var(lst.name, lst.type, minlen=0, mutable=False)  # never mutate what is being iterated
		elif x < 0.7 and dicts and self.o['dicts']:
			dv = r.choice(dicts)
			ints = [v for v in scope.values() if v.type == INT and v.mutable]
			if not ints:
				self.declare(scope, INT, ind)
				ints = [v for v in scope.values() if v.type == INT and v.mutable]
			acc = r.choice(ints)
			form = r.choice(['items', 'values', 'keys'])
			self.f.add('for-dict-' + form)
			# dict order differs (insertion order vs sorted keys): the aggregation must not depend on it. A saturating sum (clamp after
			# every step) does as soon as an intermediate sum leaves the range, so the terms are non-negative and summed modulo a prime.
			self.emit(f'{ind}{acc.name} = absi({acc.name}) % 1000')
			if form == 'items':
				self.emit(f'{ind}for dk, dv in {dv.name}.items():')
				self.emit(f'{ind}\t{acc.name} = ({acc.name} + absi(dv) % 1000 + len(dk)) % 9973')
			elif form == 'values':
				self.emit(f'{ind}for dv in {dv.name}.values():')
				self.emit(f'{ind}\t{acc.name} = ({acc.name} + absi(dv) % 1000) % 9973')
			else:
				self.emit(f'{ind}for dk in {dv.name}.keys():')
				self.emit(f'{ind}\t{acc.name} = ({acc.name} + len(dk)) % 9973')
			acc.lo, acc.hi = 0, 9972
			return
		elif self.o['while']:
			k = self.fresh(['k', 'w', 'left'], scope)
			e = self.clampi(self.nonneg(scope, 1))
			self.emit(f'{ind}{k} = {e.at(80)} % 6')
			self.emit(f'{ind}while {k} > 0:')
			self.emit(f'{ind}\t{k} -= 1')
			self.f.add('while')
			scope[k] = Var(k, INT, 0, 5, mutable=False)
			inner[k] = scope[k]
		else:
			return
		for v in inner.values():
			if v.type == INT and v.mutable and v.name in scope:
				v2 = Var(v.name, INT, -LIMIT, LIMIT)
				inner[v.name] = v2
		self.block(inner, ind + '\t', d - 1, ret, True)
		for name, v in inner.items():
			if name in scope and scope[name].type == INT and scope[name].mutable:
				scope[name].lo, scope[name].hi = -LIMIT, LIMIT
			if name in scope and v.type[0] in ('list', 'str') and scope[name].mutable:
				scope[name].minlen = min(scope[name].minlen, v.minlen)
			if name in scope and v.type[0] == 'dict':
				scope[name].keys = tuple(k for k in scope[name].keys if k in v.keys)

	def container_stmt(self, scope: dict, ind: str) -> None:
		r = self.r
		lists = [v for v in scope.values() if v.type == ('list', INT) and v.mutable]
		dicts = [v for v in scope.values() if v.type == ('dict', STR, INT) and v.mutable]
		x = r.random()
		if lists and x < 0.6:
			v = r.choice(lists)
			y = r.random()
			e = self.clampi(self.int_expr(scope, 1)).text
			if y < 0.4:
				self.emit(f'{ind}{v.name}.append({e})')
				v.minlen += 1
				self.f.add('list.append')
			elif y < 0.55 and self.o['list_methods']:
				self.emit(f'{ind}{v.name}.insert(0, {e})')
				v.minlen += 1
				self.f.add('list.insert')
			elif y < 0.7 and self.o['list_methods']:
				self.emit(f'{ind}if len({v.name}) > 1:')
				self.emit(f'{ind}\t{v.name}.pop()')
				v.minlen = max(0, v.minlen - 1)
				self.f.add('list.pop')
			elif y < 0.85:
				i = r.choice([0, 0, 1, 2])
				self.emit(f'{ind}if len({v.name}) > {i}:')
				self.emit(f'{ind}\t{v.name}[{i}] = {e}')
				self.f.add('list-store')
			elif self.o['comps']:
				n = self.fresh(NAMES_LIST, scope)
				cond = f' if {self.bool_expr({**scope, "q": Var("q", INT)}, 1)}' if r.random() < 0.5 else ''
				body = self.clampi(self.int_expr({'q': Var('q', INT), **{k: s for k, s in scope.items() if s.type == INT}}, 1)).text
				self.emit(f'{ind}{n} = [{body} for q in {v.name}{cond}]')
				scope[n] = Var(n, ('list', INT))
				self.f.add('list-comp')
			return
		if dicts and self.o['dicts']:
			v = r.choice(dicts)
			y = r.random()
			key = r.choice(["'a'", "'b'", "'k1'", "'zz'"])
			e = self.clampi(self.int_expr(scope, 1)).text
			if y < 0.5:
				self.emit(f'{ind}{v.name}[{key}] = {e}')
				if key not in v.keys:
					v.keys = v.keys + (key,)
				self.f.add('dict-store')
			elif y < 0.8 and self.o['dict_get']:
				ints = [s for s in scope.values() if s.type == INT and s.mutable]
				if ints:
					t = r.choice(ints)
					form = r.choice(['plain', 'sum'])
					self.f.add('dict.get' + (':in-sum' if form == 'sum' else ''))
					if form == 'plain':
						self.emit(f'{ind}{t.name} = {v.name}.get({key}, {r.choice([0, 5, 7])})')
					else:
						self.emit(f'{ind}{t.name} = clamp({t.name} + {v.name}.get({key}, {r.choice([0, 5, 7])}))')
					t.lo, t.hi = -LIMIT, LIMIT
			elif v.keys:
				ints = [s for s in scope.values() if s.type == INT and s.mutable]
				if ints:
					t = r.choice(ints)
					self.emit(f'{ind}{t.name} = {v.name}[{r.choice(v.keys)}]')
					t.lo, t.hi = -LIMIT, LIMIT
					self.f.add('dict-read')
			return
		self.declare(scope, ('list', INT), ind)

	def object_stmt(self, scope: dict, ind: str) -> None:
		r = self.r
		objs = [v for v in scope.values() if v.type[0] == 'cls' and v.fresh_obj]
		if not objs:
			if self.classes and self.o['classes']:
				self.declare(scope, ('cls', r.choice(list(self.classes))), ind)
			return
		v = r.choice(objs)
		cls = self.classes[v.type[1]]
		muts = [m for c in self.mro(cls) for m in c.mutators]
		if muts:
			m = r.choice(muts)
			a = self.args_for(m, scope, 1)
			if a is not None:
				self.emit(f'{ind}{v.name}.{m.name}({a})')
				self.f.add('mutator-call')
				return
		cf = [(fn, ft) for fn, ft in cls.all_fields(self.classes) if ft == INT]
		if cf:
			fn = r.choice(cf)[0]
			self.emit(f'{ind}{v.name}.{fn} = {self.clampi(self.int_expr(scope, 1)).text}')
			self.f.add('field-store')

	def try_stmt(self, scope: dict, ind: str, d: int, ret: tuple, in_loop: bool) -> None:
		self.f.add('try')
		ints = [v for v in scope.values() if v.type == INT and v.mutable]
		if not ints:
			self.declare(scope, INT, ind)
			ints = [v for v in scope.values() if v.type == INT and v.mutable]
		t = self.r.choice(ints)
		self.emit(f'{ind}try:')
		self.emit(f'{ind}\tif {self.bool_expr(scope, 1)}:')
		self.emit(f"{ind}\t\traise RuntimeError({self.r.choice(STR_LITS[:5])})")
		self.emit(f'{ind}\t{t.name} = {self.clampi(self.int_expr(scope, 1)).text}')
		self.emit(f'{ind}except RuntimeError as err:')
		self.emit(f'{ind}\t{t.name} = {self.r.choice([-1, 0, 99])}')
		t.lo, t.hi = -LIMIT, LIMIT

	# ------------------------------------------------------------------ definitions
	def helper_defs(self) -> None:
		self.emit('def clamp(n: int) -> int:')
		self.emit(f'\tif n > {LIMIT}:')
		self.emit(f'\t\treturn {LIMIT}')
		self.emit(f'\tif n < -{LIMIT}:')
		self.emit(f'\t\treturn -{LIMIT}')
		self.emit('\treturn n')
		self.emit('')
		self.emit('')
		self.emit('def absi(n: int) -> int:')
		self.emit('\treturn n if n >= 0 else -n')
		self.emit('')
		self.emit('')
		self.funcs['clamp'] = Func('clamp', [('n', INT, None)], INT, -LIMIT, LIMIT)
		self.funcs['absi'] = Func('absi', [('n', INT, None)], INT, 0, LIMIT)

	def gen_enum(self) -> None:
		r = self.r
		name = self.fresh(['Color', 'Kind', 'Mode', 'Level'], {})
		members = r.sample(['RED', 'GREEN', 'BLUE', 'LOW', 'MID', 'HIGH', 'ON', 'OFF', 'DARK_RED', 'RED_DARK', 'OFF_ON', 'LOW_MID'], r.choice([2, 3, 4]))
		self.enums[name] = []
		self.emit(f'class {name}(Enum):')
		used_vals: set[int] = set()
		for i, m in enumerate(members):
			val = i if r.random() < 0.5 else (i + 1) * r.choice([1, 2, 10])
			while val in used_vals:
				val += 1  # equal values would make the later member an alias of the earlier one in Python (its .name differs)
			used_vals.add(val)
			self.emit(f'\t{m} = {val}')
			self.enums[name].append((m, val))
		self.emit('')
		self.emit('')
		self.f.add('enum')

	def fold(self, v: Var, ind: str) -> None:
		"""Fold one local into the function's accumulator `obs`, so that a wrong value, length, element order, declared type (a float
		declared int truncates) or field of ANY local - also one that lives in a nested block only - reaches the compared result."""
		n, t = v.name, v.type
		if '.' in n or n == 'obs':
			return
		if t == INT:
			self.emit(f'{ind}obs = clamp(obs * 3 + {n})')
		elif t == BOOL:
			self.emit(f'{ind}obs = clamp(obs * 3 + (1 if {n} else 0))')
		elif t == STR:
			self.emit(f'{ind}obs = clamp(obs * 3 + len({n}) + (1 if {n} < \'m\' else 0))')
		elif t == FLOAT:
			# floats of the subset are small dyadic rationals: doubling and truncating is exact in both languages
			self.emit(f'{ind}obs = clamp(obs * 3 + int(({n}) * 2.0) + (1 if {n} > 1.25 else 0))')
		elif t == ('list', INT):
			self.emit(f'{ind}for obs_q in {n}:')
			self.emit(f'{ind}\tobs = clamp(obs * 3 + obs_q)')
			self.emit(f'{ind}obs = clamp(obs + len({n}))')
		elif t == ('dict', STR, INT):
			# order-independent: non-negative terms summed modulo a prime (see the dict loops above), then folded in
			self.emit(f'{ind}obs_d = 0')
			self.emit(f'{ind}for obs_k, obs_v in {n}.items():')
			self.emit(f'{ind}\tobs_d = (obs_d + absi(obs_v) % 1000 + (7 if obs_v < 0 else 0) + len(obs_k)) % 9973')
			self.emit(f'{ind}obs = clamp(obs * 3 + obs_d)')
		elif t[0] == 'cls' and t[1] in self.classes:
			for fn, ft in self.classes[t[1]].all_fields(self.classes):
				if ft == INT:
					self.emit(f'{ind}obs = clamp(obs * 3 + {n}.{fn})')
				elif ft == STR:
					self.emit(f'{ind}obs = clamp(obs * 3 + len({n}.{fn}))')
				elif ft == BOOL:
					self.emit(f'{ind}obs = clamp(obs * 3 + (1 if {n}.{fn} else 0))')
		elif t[0] == 'enum' and t[1] in self.enums:
			first = self.enums[t[1]][0][0]
			self.emit(f'{ind}obs = clamp(obs * 3 + (1 if {n} == {t[1]}.{first} else 0))')

	def observe(self, scope: dict, ind: str) -> str | None:
		if not self.observing:
			return None
		self.f.add('observer')
		for v in list(scope.values()):
			self.fold(v, ind)
		return 'obs'

	def return_stmt(self, scope: dict, ind: str, ret: tuple) -> tuple[int, int]:
		if ret == ('none',):
			return 0, 0
		if ret == INT:
			e = self.clampi(self.int_expr(scope, self.r.choice([1, 2, 3])))
			if self.observing:
				obs = self.observe(scope, ind)
				if obs:
					self.emit(f'{ind}return clamp({e.at(71)} + {obs})')
					return -LIMIT, LIMIT
			self.emit(f'{ind}return {e.text}')
			return e.lo, e.hi
		text = None
		cands = [v for v in scope.values() if v.type == ret]
		if cands and ret[0] in ('list', 'dict', 'cls', 'tuple') and self.r.random() < 0.8:
			text = self.r.choice(cands).name
		if text is None:
			text = self.expr(ret, scope, 2)
		for _ in range(12):
			if text is not None:
				break
			text = self.expr(ret, scope, 0)
		if text is None:
			# a well-typed function never returns None for a container / object type: fall back to a variable of that type
			assert cands, f'no expression of type {ret}'
			text = self.r.choice(cands).name
		if ret[0] == 'tuple' and self.r.random() < 0.4 and text.startswith('('):
			text = text[1:-1]
			self.f.add('return-bare-tuple')
		self.emit(f'{ind}return {text}')
		return -LIMIT, LIMIT

	def gen_body(self, scope: dict, ind: str, ret: tuple, n_stmts: int, depth: int = 2) -> tuple[int, int]:
		self.observing = ret == INT and self.o['observe'] and self.r.random() < 0.75 and not any(v.name == 'obs' for v in scope.values())
		if self.observing:
			self.emit(f'{ind}obs = 0')
		try:
			return self.gen_body_(scope, ind, ret, n_stmts, depth)
		finally:
			self.observing = False

	def gen_body_(self, scope: dict, ind: str, ret: tuple, n_stmts: int, depth: int = 2) -> tuple[int, int]:
		for _ in range(n_stmts):
			self.stmt(scope, ind, depth, ret, False)
		if self.o['closures'] and self.r.random() < 0.12 and ret == INT:
			cname = self.fresh(['inner', 'helper', 'step'], scope)
			p = self.fresh(['z', 'u2', 'arg'], scope)
			cap = {k: Var(v.name, v.type, v.lo, v.hi, mutable=False) for k, v in scope.items() if v.type in (INT, STR, BOOL)}
			self.emit(f'{ind}def {cname}({p}: int) -> int:')
			cap[p] = Var(p, INT, mutable=False)
			e = self.clampi(self.int_expr(cap, 2))
			self.emit(f'{ind}\treturn {e.text}')
			self.f.add('closure')
			arg = self.clampi(self.int_expr(scope, 1)).text
			# the captured variables are not reassigned after this point: the closure is used immediately in the return
			self.emit(f'{ind}return clamp({cname}({arg}) + {self.clampi(self.int_expr(scope, 1)).text})')
			return -LIMIT, LIMIT
		if self.o['lambdas'] and self.r.random() < 0.1 and ret == INT and 'apply1' in self.funcs:
			self.f.add('lambda-arg')
			body = self.clampi(self.int_expr({'q': Var('q', INT)}, 1)).text
			self.emit(f'{ind}return clamp(apply1(lambda q: {body}, {self.clampi(self.int_expr(scope, 1)).text}))')
			return -LIMIT, LIMIT
		return self.return_stmt(scope, ind, ret)

	def scalar_params(self, n: int) -> list[tuple[str, tuple, str | None]]:
		r = self.r
		out = []
		used: set[str] = set()
		seen_default = False
		for _ in range(n):
			t = r.choice([INT, INT, INT, STR, BOOL] + ([FLOAT] if self.o['floats'] else []))
			pool = {'int': NAMES_INT, 'str': NAMES_STR, 'float': NAMES_FLOAT, 'bool': NAMES_BOOL}[t[0]]
			name = next((x for x in r.sample(pool, len(pool)) if x not in used), None)
			if name is None:
				continue
			used.add(name)
			dv = None
			if self.o['defaults'] and (seen_default or r.random() < 0.2):
				seen_default = True
				dv = {'int': str(r.choice([0, 1, 3, 10])), 'str': r.choice(STR_LITS), 'float': r.choice(FLOAT_LITS), 'bool': r.choice(['True', 'False'])}[t[0]]
				self.f.add('default-arg')
			out.append((name, t, dv))
		return out

	def param_scope(self, params) -> dict:
		scope = {}
		for n, t, dv in params:
			v = Var(n, t, mutable=False)
			if t == INT:
				v.lo, v.hi = -LIMIT, LIMIT
			scope[n] = v
		return scope

	def sig(self, params, self_first: str | None = None) -> str:
		parts = [self_first] if self_first else []
		for n, t, dv in params:
			parts.append(f'{n}: {ann(t)}' + (f' = {dv}' if dv is not None else ''))
		return ', '.join(parts)

	def gen_function(self, name: str | None = None, ret: tuple | None = None) -> Func:
		r = self.r
		name = name or self.fresh(['calc', 'mix', 'fold', 'step', 'score', 'pick', 'merge', 'scan', 'eval_', 'walk', 'run', 'twist'], {})
		if name in self.funcs:
			self.uid += 1
			name = f'{name}{self.uid}'
		rets = [INT, INT, INT, STR, BOOL, ('list', INT)]
		if self.o['floats']:
			rets.append(FLOAT)
		if self.o['dicts']:
			rets.append(('dict', STR, INT))
		if self.o['tuples']:
			rets.append(('tuple', (INT, STR)))
		if self.o['classes'] and self.classes:
			rets.append(('cls', r.choice(list(self.classes))))
		if self.o['enums'] and self.enums:
			rets.append(('enum', r.choice(list(self.enums))))
		ret = ret or r.choice(rets)
		params = self.scalar_params(r.choice([1, 2, 2, 3]))
		fn = Func(name, params, ret)
		self.emit(f'def {name}({self.sig(params)}) -> {ann(ret)}:')
		scope = self.param_scope(params)
		lo, hi = self.gen_body(scope, '\t', ret, r.choice([1, 2, 3, self.size]))
		fn.lo, fn.hi = lo, hi
		fn.raises = False
		self.emit('')
		self.emit('')
		self.funcs[name] = fn
		self.f.add('def')
		return fn

	def gen_class(self) -> None:
		r = self.r
		name = self.fresh(['Point', 'Acc', 'Box', 'Cell', 'Item', 'Track'], {})
		base = None
		if self.o['inherit'] and self.classes and r.random() < 0.4:
			base = r.choice(list(self.classes))
			self.f.add('inheritance')
		field_types = [INT, INT, STR, BOOL, ('list', INT)] + ([FLOAT] if self.o['floats'] else [])
		taken = {fn for fn, _ in (self.classes[base].all_fields(self.classes) if base else [])}
		fields = []
		for fname in r.sample(['x', 'y', 'w', 'count', 'label', 'vals', 'level', 'on'], r.choice([1, 2, 3])):
			if fname in taken:
				continue
			ft = {'label': STR, 'vals': ('list', INT), 'on': BOOL}.get(fname, r.choice([INT, INT, FLOAT] if self.o['floats'] else [INT]))
			fields.append((fname, ft))
		if not fields:
			fields = [('extra' if 'extra' not in taken else f'extra{len(self.classes)}', INT)]
		init_params = []
		base_cls = self.classes[base] if base else None
		seen_default = False
		own_init = []
		for fn, ft in fields:
			if ft[0] == 'list':
				continue
			dv = None
			if self.o['defaults'] and (seen_default or r.random() < 0.25):
				seen_default = True
				dv = {'int': '3', 'str': "'d'", 'float': '1.5', 'bool': 'True'}[ft[0]]
			own_init.append((fn, ft, dv))
		base_params = [(pn, pt, None) for pn, pt, _ in (base_cls.init_params if base_cls else [])]
		init_params = base_params + own_init
		# defaults must trail
		if any(dv is None for _, _, dv in own_init) and any(dv is not None for _, _, dv in own_init):
			first_default = next(i for i, (_, _, dv) in enumerate(own_init) if dv is not None)
			own_init = [(n, t, dv if i >= first_default else None) for i, (n, t, dv) in enumerate(own_init)]
			seen = False
			fixed = []
			for n, t, dv in own_init:
				if dv is not None:
					seen = True
				fixed.append((n, t, dv if seen else None))
			own_init = fixed
			init_params = base_params + own_init
		cls = Cls(name, base, fields, init_params)
		self.emit(f'class {name}({base}):' if base else f'class {name}:')
		for fn, ft in fields:
			self.emit(f'\t{fn}: {ann(ft)}')
		self.emit('')
		self.emit(f'\tdef __init__({self.sig(init_params, "self")}) -> None:')
		if base:
			self.emit(f'\t\tsuper().__init__({", ".join(pn for pn, _, _ in base_params)})')
			self.f.add('super-init')
		for fn, ft in fields:
			if ft[0] == 'list':
				self.emit(f'\t\tself.{fn} = []')
			else:
				self.emit(f'\t\tself.{fn} = {fn}')
		self.emit('')
		self.classes[name] = cls
		fscope = {f'self.{fn}': Var(f'self.{fn}', ft, mutable=False) for fn, ft in cls.all_fields(self.classes) if ft in (INT, STR, BOOL, FLOAT)}
		# methods
		for _ in range(r.choice([1, 2, 2])):
			mname = self.fresh(['total', 'weight', 'rank', 'score_of', 'norm', 'tag_len'], {m.name: 1 for c in self.mro(cls) for m in c.methods + c.props + c.mutators})
			overriding = False
			if base and r.random() < 0.4:
				inherited = [m for c in self.mro(self.classes[base]) for m in c.methods if m.ret == INT]
				if inherited:
					ov = r.choice(inherited)
					if all(m.name != ov.name for m in cls.methods):
						mname, overriding = ov.name, True
						self.f.add('override')
			params = [(n, t, None) for n, t, _ in self.scalar_params(r.choice([0, 1, 2]))] if not overriding else [(n, t, None) for n, t, _ in ov.params]
			m = Func(mname, params, INT)
			self.emit(f'\tdef {mname}({self.sig(params, "self")}) -> int:')
			scope = {**fscope, **self.param_scope(params)}
			lo, hi = self.gen_body(scope, '\t\t', INT, r.choice([0, 1, 2]), depth=1)
			m.lo, m.hi = lo, hi
			self.emit('')
			cls.methods.append(m)
			self.f.add('method')
		if self.o['props'] and r.random() < 0.5:
			pname = self.fresh(['twice', 'half_ok', 'span'], {m.name: 1 for c in self.mro(cls) for m in c.methods + c.props})
			self.emit('\t@property')
			self.emit(f'\tdef {pname}(self) -> int:')
			e = self.clampi(self.int_expr(dict(fscope), 2))
			self.emit(f'\t\treturn {e.text}')
			self.emit('')
			cls.props.append(Func(pname, [], INT, e.lo, e.hi))
			self.f.add('property')
		int_fields = [fn for fn, ft in cls.all_fields(self.classes) if ft == INT]
		list_fields = [fn for fn, ft in cls.all_fields(self.classes) if ft == ('list', INT)]
		if int_fields and r.random() < 0.7:
			mname = self.fresh(['bump', 'shift', 'grow'], {m.name: 1 for c in self.mro(cls) for m in c.methods + c.props + c.mutators})
			fn = r.choice(int_fields)
			self.emit(f'\tdef {mname}(self, delta: int) -> None:')
			self.emit(f'\t\tself.{fn} = clamp(self.{fn} + delta)')
			if list_fields and r.random() < 0.6:
				self.emit(f'\t\tself.{r.choice(list_fields)}.append(delta)')
			self.emit('')
			cls.mutators.append(Func(mname, [('delta', INT, None)], ('none',)))
			self.f.add('mutator')
		if self.o['classmethods'] and r.random() < 0.4 and not base:
			cm = self.fresh(['make', 'origin', 'unit'], {m.name: 1 for c in self.mro(cls) for m in c.methods + c.props + c.mutators})
			args = []
			for pn, pt, dv in init_params:
				args.append({'int': '1', 'str': "'cm'", 'float': '0.5', 'bool': 'False'}[pt[0]])
			self.emit('\t@classmethod')
			self.emit(f"\tdef {cm}(cls) -> '{name}':")
			self.emit(f'\t\treturn {name}({", ".join(args)})')
			self.emit('')
			cls.classmethods.append(Func(cm, [], ('cls', name)))
			self.f.add('classmethod')
		self.emit('')
		self.f.add('class')

	# ------------------------------------------------------------------ program
	def vectors_for(self, params: list[tuple[str, tuple]]) -> list[list]:
		r = self.r
		pools = {'int': [0, 1, -1, 2, 7, -13, 50, 100, -100], 'str': ['', 'a', 'ab', 'abc', 'hello', 'k1'], 'bool': [True, False], 'float': [0.0, 0.5, -1.5, 2.0, 8.25]}
		vs = []
		# boundary vector first
		vs.append([pools[t[0]][0] for _, t in params])
		for _ in range(7):
			vs.append([r.choice(pools[t[0]]) for _, t in params])
		# dedupe
		out = []
		for v in vs:
			if v not in out:
				out.append(v)
		return out

	def import_from(self, module_name: str, other: 'TypedGen') -> str:
		"""Make everything `other` defined available here as imported names; returns the import line."""
		names = list(other.funcs) + list(other.classes) + list(other.enums)
		self.funcs.update(other.funcs)
		self.classes.update(other.classes)
		self.enums.update(other.enums)
		self.imported = True
		return f'from {module_name} import ' + ', '.join(names)

	def program(self, n_funcs: int | None = None, imports: list[str] | None = None) -> Program:
		r = self.r
		self.lines = []
		head = ['from collections.abc import Callable', 'from enum import Enum']
		for imp in imports or []:
			head.append(imp)
		self.lines.extend(head + ['', ''])
		if not getattr(self, 'imported', False):
			self.helper_defs()
		if self.o['lambdas'] and 'apply1' not in self.funcs:
			self.emit('def apply1(fn: Callable[[int], int], v: int) -> int:')
			self.emit('\treturn fn(v)')
			self.emit('')
			self.emit('')
			self.funcs['apply1'] = Func('apply1', [], INT, pure=False)
		if self.o['enums']:
			for _ in range(r.choice([0, 1, 1, 2])):
				self.gen_enum()
		n_funcs = n_funcs or r.choice([2, 3, 4, self.size])
		n_classes = r.choice([0, 1, 1, 2]) if self.o['classes'] else 0
		order = ['f'] * n_funcs + ['c'] * n_classes
		r.shuffle(order)
		entries: list[Entry] = []
		for kind in order:
			if kind == 'c':
				self.gen_class()
			else:
				fn = self.gen_function()
				ps = [(n, t) for n, t, _ in fn.params]
				entries.append(Entry(fn.name, ps, fn.ret, self.vectors_for(ps)))
		src = '\n'.join(self.lines).rstrip('\n') + '\n'
		return Program(src, entries, self.classes, self.enums, set(self.f), ['clamp', 'absi', 'apply1'])
