"""Systematic "grouping" programs for C01: for every ordered pair of operators one expression without parentheses and the two
explicitly parenthesised variants, as tiny functions of three small non-negative ints. Complete over pairs on every run
(the property singles grouping out); sampled triples ride along."""
from __future__ import annotations

import itertools
import random

from vf.gen.typed import Entry, Program, INT, BOOL

# operator classes: (symbol, kind) ; kind decides which operands are legal
ARITH = ['*', '%', '+', '-', '<<', '>>', '&', '^', '|']
CMP = ['<', '>', '==', '!=', '<=', '>=']
BOOLOP = ['and', 'or']
UNARY = ['-', '+', '~']

VALUES = [0, 1, 2, 3, 5]


def operand(kind: str, name: str) -> str:
	"""an operand of the wanted kind built from the int parameter `name`"""
	if kind == 'int':
		return name
	return f'{name} > 1'  # bool operand (a comparison, never a bare int: `and`/`or` on ints return operands in Python)


def result_kind(op: str) -> str:
	return 'bool' if op in CMP or op in BOOLOP or op == 'not' else 'int'


def operand_kind(op: str) -> str:
	return 'bool' if op in BOOLOP or op == 'not' else 'int'


def combos() -> list[tuple[str, str, list[str]]]:
	"""[(label, unparenthesised expression, [parenthesised variants])] over a, b, c"""
	out = []
	bins = ARITH + CMP + BOOLOP
	for o1, o2 in itertools.product(bins, bins):
		k1, k2 = operand_kind(o1), operand_kind(o2)
		# a o1 b o2 c : operand kinds must be compatible with both neighbours
		def mk(x_kind_a: str, x_kind_b: str, x_kind_c: str) -> tuple[str, str, str]:
			return operand(x_kind_a, 'a'), operand(x_kind_b, 'b'), operand(x_kind_c, 'c')
		# the middle operand b belongs to both operators: pick the stricter kind; bool operands for and/or, ints otherwise;
		# a comparison result may feed and/or (bool) but an int operator needs ints
		if k1 == 'bool' and k2 == 'bool':
			a, b, c = mk('bool', 'bool', 'bool')
		elif k1 == 'bool' and k2 == 'int':
			# a and b + c  -> only legal when o2 yields bool-compatible... and/or need bools: `a > 1 and b < c` (o2 comparison) or skip arithmetic
			if o2 not in CMP:
				continue
			a, b, c = operand('bool', 'a'), 'b', 'c'
		elif k1 == 'int' and k2 == 'bool':
			if o1 not in CMP:
				continue
			a, b, c = 'a', 'b', operand('bool', 'c')
		else:
			a, b, c = 'a', 'b', 'c'
			if o1 == '%' or o2 == '%':
				# keep every modulus positive: replace its right operand by (x + 1)
				pass
		def rhs(op: str, x: str) -> str:
			return f'({x} + 1)' if op == '%' else x
		# %: right operand must be positive under every grouping; write the affected operand as (x + 1)
		bb = rhs(o1, b)
		cc = rhs(o2, c)
		flat = f'{a} {o1} {bb} {o2} {cc}'
		left = f'({a} {o1} {bb}) {o2} {cc}'
		right = f'{a} {o1} ({bb} {o2} {cc})'
		# a parenthesised variant may be ill-typed in python terms only for shifts by negative amounts or modulo by zero; vectors avoid them, see safe()
		out.append((f'{o1} {o2}', flat, [left, right]))
	for u in UNARY:
		for o in ARITH + CMP:
			bb = '(b + 1)' if o == '%' else 'b'
			out.append((f'u{u} {o}', f'{u}a {o} {bb}', [f'({u}a) {o} {bb}', f'{u}(a {o} {bb})']))
			out.append((f'{o} u{u}', f'a {o} {u}{bb}', [f'a {o} ({u}{bb})']))
		for u2 in UNARY:
			# "- -a" must not be printed as "--a"
			out.append((f'u{u} u{u2}', f'{u} {u2}a' if u != '~' else f'{u}{u2}a', [f'{u}({u2}a)']))
	for o in CMP + BOOLOP:
		if o in CMP:
			out.append((f'not {o}', f'not a {o} b', [f'(not a > 1) {o} (b > 1)'.replace(f' {o} ', ' == ') if False else f'not (a {o} b)']))
			out.append((f'{o} not', f'a {o} b and not b {o} c', [f'(a {o} b) and (not (b {o} c))']))
		else:
			out.append((f'not {o}', f'not a > 1 {o} b > 1', [f'(not a > 1) {o} (b > 1)', f'not (a > 1 {o} b > 1)']))
	# `not` binds looser than every arithmetic / bitwise / shift operator in Python, tighter than all of them in C++
	for o in ARITH:
		bb = '(b + 1)' if o == '%' else 'b'
		out.append((f'not {o}', f'not a {o} {bb}', [f'not (a {o} {bb})', f'(not a) {o} {bb}']))
		out.append((f'not {o} cmp', f'not a {o} {bb} > c', [f'not ((a {o} {bb}) > c)', f'(not a) {o} {bb} > c']))
	# ternaries against everything
	for o in ARITH + CMP:
		bb = '(c + 1)' if o == '%' else 'c'
		out.append((f'ternary {o}', f'a if b > 1 else b {o} {bb}', [f'(a if b > 1 else b) {o} {bb}', f'a if b > 1 else (b {o} {bb})']))
		out.append((f'{o} ternary', f'a {o} {"(b + 1)" if o == "%" else "b"} if c > 1 else c', [f'(a {o} {"(b + 1)" if o == "%" else "b"}) if c > 1 else c']))
	out.append(('ternary ternary', 'a if a > 1 else b if b > 1 else c', ['a if a > 1 else (b if b > 1 else c)', '(a if a > 1 else b) if b > 1 else c']))
	out.append(('ternary and', 'a if b > 1 and c > 1 else b', ['a if (b > 1 and c > 1) else b']))
	out.append(('ternary or', 'a if b > 1 or c > 1 else b', ['a if (b > 1 or c > 1) else b']))
	out.append(('ternary not', 'a if not b > 1 else c', ['a if (not (b > 1)) else c']))
	# comparison chains
	for o1, o2 in itertools.product(CMP, CMP):
		out.append((f'chain {o1} {o2}', f'a {o1} b {o2} c', [f'a {o1} b and b {o2} c']))
	return out


def evaluates(expr: str, vec: tuple[int, int, int]):
	try:
		return eval(expr, {'__builtins__': {}}, {'a': vec[0], 'b': vec[1], 'c': vec[2]})  # noqa: S307
	except Exception:  # noqa
		return None


def safe(expr: str, vec: tuple[int, int, int]) -> bool:
	"""inside the subset: no negative shift counts / shifts of negatives / modulo of negatives / huge values in ANY sub-evaluation"""
	import ast
	tree = ast.parse(expr, mode='eval')
	env = {'a': vec[0], 'b': vec[1], 'c': vec[2]}
	ok = [True]

	def ev(n):
		if isinstance(n, ast.BinOp):
			l, rr = ev(n.left), ev(n.right)
			if l is None or rr is None:
				return None
			if isinstance(n.op, (ast.LShift, ast.RShift)) and (rr < 0 or rr > 12 or l < 0):
				ok[0] = False
				return None
			if isinstance(n.op, ast.Mod) and (rr <= 0 or l < 0):
				ok[0] = False
				return None
			if isinstance(l, bool) or isinstance(rr, bool):
				# arithmetic on comparison results (True + 1) is legal in both languages but not what this table is about
				pass
		try:
			v = eval(compile(ast.Expression(n), '<e>', 'eval'), {'__builtins__': {}}, env)  # noqa: S307
		except Exception:  # noqa
			ok[0] = False
			return None
		if isinstance(v, int) and abs(v) > 1_000_000:
			ok[0] = False
		for ch in ast.iter_child_nodes(n):
			if isinstance(ch, ast.expr) and not isinstance(n, ast.BinOp):
				ev(ch)
		return v
	ev(tree.body)
	return ok[0]


def well_typed(expr: str) -> bool:
	"""and/or only over boolean operands, both arms of a ternary of one kind: otherwise Python returns an *operand* (an int) where
	C++ yields a bool, which is a difference by construction and not what the table is about."""
	import ast
	ok = [True]

	def kind(n) -> str:
		if isinstance(n, ast.Compare):
			for x in [n.left] + n.comparators:
				kind(x)
			return 'bool'
		if isinstance(n, ast.BoolOp):
			for v in n.values:
				if kind(v) != 'bool':
					ok[0] = False
			return 'bool'
		if isinstance(n, ast.UnaryOp):
			k = kind(n.operand)
			return 'bool' if isinstance(n.op, ast.Not) else 'int'
		if isinstance(n, ast.IfExp):
			kind(n.test)
			a, b = kind(n.body), kind(n.orelse)
			if a != b:
				ok[0] = False
			return a
		if isinstance(n, ast.BinOp):
			kind(n.left)
			kind(n.right)
			return 'int'
		return 'int'
	kind(ast.parse(expr, mode='eval').body)
	return ok[0]


def grouping_programs(r: random.Random, per_program: int = 48, triples: int = 0) -> list[Program]:
	table = combos()
	if triples:
		bins = ARITH + CMP
		for _ in range(triples):
			o1, o2, o3 = r.choice(bins), r.choice(bins), r.choice(bins)
			def rh(op: str, x: str) -> str:
				return f'({x} + 1)' if op == '%' else x
			table.append((f'{o1} {o2} {o3}', f'a {o1} {rh(o1, "b")} {o2} {rh(o2, "c")} {o3} {rh(o3, "a")}', []))
	vectors_all = list(itertools.product(VALUES, VALUES, VALUES))
	progs: list[Program] = []
	funcs: list[tuple[str, str, str, str]] = []  # (name, expr, ret annotation, label)
	k = 0
	for label, flat, variants in table:
		for j, expr in enumerate([flat] + variants):
			if not well_typed(expr):
				continue
			probe = [v for v in vectors_all if safe(expr, v)]
			if len(probe) < 8:
				continue
			kinds = {type(evaluates(expr, v)).__name__ for v in probe}
			if kinds - {'int', 'bool'} or len(kinds) != 1:
				continue  # an expression whose python type depends on the values (int or bool) has no single C++ type
			ret = 'bool' if kinds == {'bool'} else 'int'
			funcs.append((f'g{k}', expr, ret, label + ('' if j == 0 else f' /paren{j}')))
			k += 1
	for i in range(0, len(funcs), per_program):
		chunk = funcs[i:i + per_program]
		lines = []
		entries = []
		for name, expr, ret, label in chunk:
			lines += [f'def {name}(a: int, b: int, c: int) -> {ret}:', f'\treturn {expr}', '', '']
			good = [list(v) for v in vectors_all if safe(expr, v)]
			r2 = random.Random(hash(expr) & 0xffff)
			r2.shuffle(good)
			entries.append(Entry(name, [('a', INT), ('b', INT), ('c', INT)], INT if ret == 'int' else BOOL, good[:14]))
		p = Program('\n'.join(lines).rstrip('\n') + '\n', entries, {}, {}, {'grouping'}, [])
		p.labels = {name: (label, expr) for name, expr, ret, label in chunk}  # type: ignore
		progs.append(p)
	return progs
