"""Grammar-directed generator for the part of data/grammar.lark that is also Python.

Produces syntactically valid (not necessarily typable) modules. Every production used is listed here explicitly; what is
valid in only one of the two grammars (trailing comments, ** and // operators, walrus, implicit string concatenation,
`else` on loops, bare except / finally, default-less lambdas with defaults, Annotated/ClassVar/TypeAlias forms) is not emitted.
"""
from __future__ import annotations

import random

NAMES = ['a', 'b', 'c', 'x', 'y', 'z', 'foo', 'bar', 'baz', 'item', 'items', 'value', 'values', 'n', 'i', 'j', 'k', 'total', 'acc', 'obj', 'data', 'flag', 'name_', 'idx']
ATTRS = ['x', 'y', 'size', 'name', 'value', 'items', 'next', 'parent', 'count']
FUNCS = ['f', 'g', 'h', 'make', 'run', 'calc', 'len', 'print', 'range', 'str', 'int']
CLASSES = ['A', 'B', 'C', 'Base', 'Node', 'Item', 'object', 'mod.Mixin', 'Exception', 'ValueError']
TYPES = ['int', 'str', 'float', 'bool', 'A', 'B', 'Node']
MODS = ['os', 'typing', 'a.b', 'pkg.mod', 'x.y.z']
COMP_OPS = ['<', '>', '==', '>=', '<=', '!=', 'in', 'not in', 'is', 'is not']
AUG_OPS = ['+=', '-=', '*=', '/=', '%=', '&=', '|=', '^=', '<<=', '>>=']

LEVELS = ['expression', 'or_test', 'and_test', 'not_test', 'comparison', 'or_expr', 'xor_expr', 'and_expr', 'shift_expr', 'sum', 'term', 'factor', 'primary', 'atom']


class SynGen:
	def __init__(self, r: random.Random, max_depth: int = 4, features: set | None = None, indent: str = '\t', opts: dict | None = None) -> None:
		self.r = r
		self.max_depth = max_depth
		self.f = features if features is not None else set()
		self.ind = indent
		self.o = {'comments': True, 'chain_assign': True, 'star': True, 'lambda': True, 'comp': True, 'decorators': True, 'hex': True, 'inline_block': True, 'aug_extra': True, 'del': True, 'yield': True, 'with': True, 'import': True, 'class': True}
		if opts:
			self.o.update(opts)

	# ------------------------------------------------------------------ expressions
	def name(self) -> str:
		return self.r.choice(NAMES)

	def number(self) -> str:
		r = self.r
		x = r.random()
		if x < 0.6:
			self.f.add('lit:int')
			return str(r.choice([0, 1, 2, 3, 5, 10, 42, 100, 255]))
		if x < 0.8:
			self.f.add('lit:float')
			return r.choice(['0.5', '1.5', '2.0', '10.25', '1e3', '2.5e-3'])
		if self.o['hex']:
			self.f.add('lit:hex')
			return r.choice(['0x1F', '0xff', '0x0', '0xABCD'])
		return '7'

	def string(self) -> str:
		r = self.r
		self.f.add('lit:str')
		body = ''.join(r.choice('abc xyz01_,:') for _ in range(r.randint(0, 6)))
		x = r.random()
		if x < 0.5:
			return "'" + body + "'"
		if x < 0.9:
			return '"' + body + '"'
		if x < 0.95:
			return "'a\\n" + body + "'"
		return '"q\\"' + body + '"'

	def atom(self, d: int) -> str:
		r = self.r
		x = r.random()
		if d <= 0:
			x = x * 0.62
		if x < 0.34:
			return self.name()
		if x < 0.48:
			return self.number()
		if x < 0.56:
			return self.string()
		if x < 0.62:
			c = r.choice(['True', 'False', 'None'])
			self.f.add('lit:' + c)
			return c
		if x < 0.70:
			self.f.add('group')
			return '(' + self.expr(d - 1) + ')'
		if x < 0.78:
			self.f.add('list')
			return '[' + self.exprlist(d - 1, 0, 3, star=True) + ']'
		if x < 0.84:
			self.f.add('tuple')
			n = r.choice([0, 1, 2, 3])
			if n == 0:
				return '()'
			items = [self.expr(d - 1) for _ in range(n)]
			return '(' + ', '.join(items) + (',' if n == 1 or r.random() < 0.2 else '') + ')'
		if x < 0.90:
			self.f.add('dict')
			n = r.choice([0, 1, 2, 3])
			items = []
			for _ in range(n):
				if self.o['star'] and r.random() < 0.12:
					self.f.add('dict-spread')
					items.append('**' + self.expr_at('or_expr', d - 1))
				else:
					items.append(self.expr(d - 1) + ': ' + self.expr(d - 1))
			return '{' + ', '.join(items) + (',' if items and r.random() < 0.15 else '') + '}'
		if x < 0.96 and self.o['comp']:
			return self.comprehension(d - 1)
		self.f.add('elipsis')
		return '...'

	def comprehension(self, d: int) -> str:
		r = self.r
		fors = []
		for _ in range(r.choice([1, 1, 1, 2])):
			names = ', '.join(r.sample(NAMES, r.choice([1, 1, 2])))
			fors.append(f'for {names} in {self.expr_at("or_test", d)}')
		cond = f' if {self.expr_at("or_test", d)}' if r.random() < 0.4 else ''
		if r.random() < 0.65:
			self.f.add('list-comp')
			return f'[{self.expr(d)} {" ".join(fors)}{cond}]'
		self.f.add('dict-comp')
		return f'{{{self.expr(d)}: {self.expr(d)} {" ".join(fors)}{cond}}}'

	def exprlist(self, d: int, lo: int, hi: int, star: bool = False) -> str:
		r = self.r
		n = r.randint(lo, hi)
		items = []
		for _ in range(n):
			if star and self.o['star'] and r.random() < 0.1:
				self.f.add('star-expr')
				items.append('*' + self.expr_at('or_expr', d))
			else:
				items.append(self.expr(d))
		return ', '.join(items) + (',' if items and r.random() < 0.1 else '')

	def arguments(self, d: int) -> str:
		r = self.r
		pos = [self.expr(d) for _ in range(r.choice([0, 1, 1, 2, 3]))]
		kws = []
		for _ in range(r.choice([0, 0, 0, 1, 2])):
			self.f.add('arg:keyword')
			kws.append(f'{r.choice(NAMES)}={self.expr(d)}')
		tail = []
		if self.o['star'] and r.random() < 0.1 and (pos or kws):
			self.f.add('arg:star')
			tail.append('*' + self.expr(d))
		if self.o['star'] and r.random() < 0.08 and (pos or kws or tail):
			self.f.add('arg:dstar')
			tail.append('**' + self.expr(d))
		# grammar: argvalue (',' argvalue)* [',' starargs] [',' kwargs] – python needs positionals before keywords
		return ', '.join(pos + kws + tail)

	def slices(self, d: int) -> str:
		r = self.r
		if r.random() < 0.6:
			n = r.choice([1, 1, 1, 2])
			self.f.add('index' if n == 1 else 'index-tuple')
			return ', '.join(self.expr(d) for _ in range(n))
		self.f.add('slice')
		lo = self.expr(d) if r.random() < 0.6 else ''
		hi = self.expr(d) if r.random() < 0.6 else ''
		s = f'{lo}:{hi}'
		# grammar: [slice] ":" [slice] [":" slice] – a step, when present, is mandatory
		if r.random() < 0.3:
			self.f.add('slice-step')
			s += ':' + self.expr(d)
		return s

	def primary(self, d: int) -> str:
		"""primary chains; which trailer may follow which receiver follows the node model (Relay: reference/call/comprehension/literal/group,
		Indexer: reference/call/comprehension, FuncCall: anything) – e.g. '"abc"[0]' parses but the node model refuses to represent it."""
		r = self.r
		if r.random() < 0.5 or d <= 0:
			base = self.atom(d)
			c0 = base[0]
			if base in ('True', 'False', 'None', '...') or c0.isdigit():
				kind = 'number'
			elif c0 in '"\'':
				kind = 'literal'
			elif c0 == '(' :
				kind = 'group' if 'group' in self.f and not base.endswith(',)') and base != '()' else 'collection'
			elif c0 in '[{':
				kind = 'comp' if (' for ' in base) else 'collection'
			elif base.startswith('lambda'):
				kind = 'lambda'
			else:
				kind = 'ref'
		else:
			base = r.choice(NAMES + FUNCS + CLASSES)
			kind = 'ref'
		n = r.choice([0, 0, 1, 1, 2, 3]) if d > 0 else r.choice([0, 0, 1])
		if kind in ('number', 'lambda', 'collection', 'group'):
			n = 0
		for _ in range(n):
			x = r.random()
			if x < 0.4 and kind in ('ref', 'call', 'comp', 'literal'):
				self.f.add('getattr')
				base += '.' + r.choice(ATTRS)
				kind = 'ref'
			elif x < 0.75 and kind in ('ref', 'call'):
				self.f.add('call')
				base += '(' + self.arguments(d - 1) + ')'
				kind = 'call'
			elif kind in ('ref', 'call', 'comp'):
				base += '[' + self.slices(d - 1) + ']'
				kind = 'ref'
		return base

	def expr_at(self, level: str, d: int) -> str:
		r = self.r
		li = LEVELS.index(level)
		if d <= 0:
			return self.primary(0)
		# choose how far to descend before emitting an operator of that level
		stop = 0.28
		for lv in LEVELS[li:]:
			if lv in ('primary', 'atom'):
				return self.primary(d)
			if r.random() < stop:
				return self.emit_level(lv, d)
		return self.primary(d)

	def emit_level(self, lv: str, d: int) -> str:
		r = self.r
		nxt = LEVELS[LEVELS.index(lv) + 1]
		if lv == 'expression':
			x = r.random()
			if x < 0.5:
				self.f.add('ternary')
				return f'{self.expr_at("or_test", d - 1)} if {self.expr_at("or_test", d - 1)} else {self.expr_at("expression", d - 1)}'
			if x < 0.75 and self.o['lambda']:
				self.f.add('lambda')
				params = ', '.join(r.sample(NAMES, r.choice([0, 1, 1, 2])))
				return f'lambda {params}: {self.expr_at("expression", d - 1)}'.replace('lambda :', 'lambda:')
			return self.expr_at('or_test', d)
		if lv in ('or_test', 'and_test'):
			op = 'or' if lv == 'or_test' else 'and'
			self.f.add('bool:' + op)
			return f' {op} '.join(self.expr_at(nxt, d - 1) for _ in range(r.choice([2, 2, 3])))
		if lv == 'not_test':
			self.f.add('not')
			return 'not ' + self.expr_at('not_test', d - 1)
		if lv == 'comparison':
			n = r.choice([2, 2, 2, 3, 4])
			parts = [self.expr_at('or_expr', d - 1)]
			for _ in range(n - 1):
				op = r.choice(COMP_OPS)
				self.f.add('cmp:' + op)
				parts += [op, self.expr_at('or_expr', d - 1)]
			if n > 2:
				self.f.add('cmp-chain')
			return ' '.join(parts)
		ops = {'or_expr': ['|'], 'xor_expr': ['^'], 'and_expr': ['&'], 'shift_expr': ['<<', '>>'], 'sum': ['+', '-'], 'term': ['*', '/', '%']}
		if lv in ops:
			n = r.choice([2, 2, 2, 3])
			parts = [self.expr_at(nxt, d - 1)]
			for _ in range(n - 1):
				op = r.choice(ops[lv])
				self.f.add('bin:' + op)
				parts += [op, self.expr_at(nxt, d - 1)]
			return ' '.join(parts)
		if lv == 'factor':
			op = r.choice(['-', '+', '~'])
			self.f.add('unary:' + op)
			inner = self.expr_at('factor', d - 1)
			return op + inner
		return self.primary(d)

	def expr(self, d: int) -> str:
		return self.expr_at('expression', d)

	# ------------------------------------------------------------------ types
	def typed(self, d: int = 2) -> str:
		r = self.r
		x = r.random()
		if d <= 0 or x < 0.5:
			return r.choice(TYPES)
		if x < 0.7:
			self.f.add('type:generic')
			return r.choice([f'list[{self.typed(d - 1)}]', f'dict[{self.typed(0)}, {self.typed(d - 1)}]', f'tuple[{self.typed(d - 1)}, {self.typed(d - 1)}]'])
		if x < 0.82:
			self.f.add('type:union')
			return f'{self.typed(d - 1)} | None'
		if x < 0.9:
			self.f.add('type:attr')
			return r.choice(['typing.Any', 'mod.Cls'])
		if x < 0.95:
			return 'None'
		self.f.add('type:quoted')
		return "'" + r.choice(CLASSES) + "'"

	# ------------------------------------------------------------------ statements
	def target(self, d: int) -> str:
		r = self.r
		x = r.random()
		if x < 0.6:
			return self.name()
		if x < 0.8:
			self.f.add('target:attr')
			return r.choice(['self', 'self', 'obj', 'a', 'x.y', 'self.' + r.choice(ATTRS), 'self.' + r.choice(ATTRS) + '.' + r.choice(ATTRS)]) + '.' + r.choice(ATTRS)
		self.f.add('target:index')
		return r.choice(NAMES) + '[' + self.expr(d - 1) + ']'

	def simple(self, d: int, in_func: bool, in_loop: bool) -> str:
		r = self.r
		x = r.random()
		if x < 0.16:
			self.f.add('stmt:expr')
			return self.expr(d)
		if x < 0.34:
			self.f.add('stmt:assign')
			n_targets = r.choice([1, 1, 1, 2]) if self.o['chain_assign'] else 1
			if n_targets > 1:
				self.f.add('assign-chain')
			targets = []
			for _ in range(n_targets):
				if r.random() < 0.2:
					self.f.add('assign-destructure')
					parts = [self.target(d) for _ in range(r.choice([2, 3]))]
					if not self.o.get('destructure_to_self', False):
						# open finding of C02: in a constructor only the FIRST target of a destructuring assignment is classified as a field declaration
						parts = [p if not p.startswith('self.') else self.name() for p in parts]
					targets.append(', '.join(parts))
				else:
					targets.append(self.target(d))
			value = self.expr(d) if r.random() < 0.85 else self.expr(d - 1) + ', ' + self.expr(d - 1)
			return ' = '.join(targets + [value])
		if x < 0.44:
			self.f.add('stmt:anno_assign')
			t = self.name()
			return f'{t}: {self.typed()}' + (f' = {self.expr(d)}' if r.random() < 0.8 else '')
		if x < 0.52:
			op = r.choice(AUG_OPS)
			self.f.add('stmt:aug_assign')
			self.f.add('aug:' + op)
			return f'{self.target(d)} {op} {self.expr(d)}'
		if x < 0.60:
			self.f.add('stmt:return')
			y = r.random()
			if y < 0.2:
				return 'return'
			if y < 0.85:
				return 'return ' + self.expr(d)
			return 'return ' + self.expr(d - 1) + ', ' + self.expr(d - 1)
		if x < 0.64:
			self.f.add('stmt:pass')
			return 'pass'
		if x < 0.69:
			self.f.add('stmt:raise')
			base = r.choice(CLASSES[-2:] + ['Err'])
			s = f'raise {base}({self.arguments(d - 1)})'
			if r.random() < 0.25:
				self.f.add('raise-from')
				s += ' from ' + r.choice(['e', 'err'])
			return s
		if x < 0.73:
			self.f.add('stmt:assert')
			return 'assert ' + self.expr(d) + (', ' + self.expr(d - 1) if r.random() < 0.4 else '')
		if x < 0.77 and self.o['del']:
			self.f.add('stmt:del')
			return 'del ' + ', '.join(self.target(d) for _ in range(r.choice([1, 1, 2])))
		if x < 0.81 and self.o['yield']:
			self.f.add('stmt:yield')
			return 'yield ' + self.expr(d)
		if x < 0.86 and in_loop:
			c = r.choice(['break', 'continue'])
			self.f.add('stmt:' + c)
			return c
		if x < 0.91 and self.o['import']:
			self.f.add('stmt:import')
			names = []
			for _ in range(r.choice([1, 1, 2, 3])):
				n = r.choice(CLASSES + FUNCS)
				names.append(n + (f' as {n}_' if r.random() < 0.25 else ''))
			lst = ', '.join(names)
			if r.random() < 0.25:
				lst = '(' + lst + ')'
			return f'from {r.choice(MODS)} import {lst}'
		if self.o['comments'] and x < 0.96:
			self.f.add('stmt:comment')
			return r.choice(['# comment', '# x = (1', '#'])
		self.f.add('stmt:expr')
		return self.primary(d)

	def block(self, d: int, level: int, in_func: bool, in_loop: bool, in_class: bool = False) -> list[str]:
		r = self.r
		n = r.choice([1, 1, 2, 2, 3])
		out: list[str] = []
		for _ in range(n):
			out.extend(self.statement(d, level, in_func, in_loop, in_class))
		# a block must hold at least one non-comment statement for CPython
		if all(l.strip().startswith('#') for l in out):
			out.append(self.ind * level + 'pass')
		return out

	def suite(self, head: str, d: int, level: int, in_func: bool, in_loop: bool, in_class: bool = False) -> list[str]:
		r = self.r
		pad = self.ind * level
		if self.o['inline_block'] and r.random() < 0.08:
			self.f.add('inline-block')
			s = self.simple(min(d, 1), in_func, in_loop)
			if not s.startswith('#'):
				return [pad + head + ' ' + s]
		return [pad + head] + self.block(d - 1, level + 1, in_func, in_loop, in_class)

	def params(self, d: int, method: str | None) -> str:
		r = self.r
		ps = []
		if method == 'method':
			ps.append('self')
		elif method == 'classmethod':
			ps.append(r.choice(['cls', 'cls', 'klass']))
		elif method == 'plain' and r.random() < 0.3:
			# a first parameter that merely is *named* cls / self-like does not make a class method
			ps.append(r.choice(['cls', 'this']))
		names = r.sample(NAMES, r.choice([0, 1, 2, 3]))
		seen_default = False
		for n in names:
			p = n
			if r.random() < 0.85:
				p += ': ' + self.typed()
			if seen_default or r.random() < 0.25:
				seen_default = True
				self.f.add('param:default')
				p += ' = ' + self.expr(min(d, 1))
			ps.append(p)
		if self.o['star'] and r.random() < 0.1:
			self.f.add('param:star')
			ps.append('*args' + (': int' if r.random() < 0.7 else ''))
		if self.o['star'] and r.random() < 0.08:
			self.f.add('param:dstar')
			ps.append('**kwargs' + (': str' if r.random() < 0.7 else ''))
		return ', '.join(ps)

	def decorators(self, level: int, extra: list[str] | None = None) -> list[str]:
		r = self.r
		pad = self.ind * level
		out = [pad + '@' + e for e in (extra or [])]
		if self.o['decorators'] and r.random() < 0.25:
			self.f.add('decorator')
			x = r.random()
			if x < 0.4:
				out.append(pad + '@' + r.choice(['deco', 'mod.deco', 'a.b.c']))
			elif x < 0.6:
				out.append(pad + '@' + r.choice(['deco', 'mod.deco']) + '()')
			else:
				out.append(pad + '@' + r.choice(['deco', 'mod.deco']) + '(' + self.arguments(1) + ')')
		return out

	def function(self, d: int, level: int, kind: str | None) -> list[str]:
		r = self.r
		name = r.choice(FUNCS[:6]) if kind != 'init' else '__init__'
		deco_extra = []
		method = None
		if kind == 'method':
			method = 'method'
			if r.random() < 0.15:
				deco_extra = ['property']
				self.f.add('def:property')
		elif kind == 'classmethod':
			method = 'classmethod'
			deco_extra = ['classmethod']
		elif kind == 'init':
			method = 'method'
		elif kind == 'plain':
			# a def directly in a class body without self / cls (static-style)
			method = 'plain'
		self.f.add('def:' + (kind or ('closure' if level > 0 else 'function')))
		ret = 'None' if kind == 'init' else self.typed()
		head = f'def {name}({self.params(d, method)}) -> {ret}:'
		return self.decorators(level, deco_extra) + self.suite(head, d, level, True, False)

	def statement(self, d: int, level: int, in_func: bool, in_loop: bool, in_class: bool = False) -> list[str]:
		r = self.r
		pad = self.ind * level
		x = r.random()
		if d <= 0 or x < 0.55:
			return [pad + self.simple(max(d, 1), in_func, in_loop)]
		if x < 0.67:
			self.f.add('stmt:if')
			out = self.suite(f'if {self.expr(d - 1)}:', d, level, in_func, in_loop)
			for _ in range(r.choice([0, 0, 1, 2])):
				self.f.add('elif')
				out += self.suite(f'elif {self.expr(d - 1)}:', d, level, in_func, in_loop)
			if r.random() < 0.5:
				self.f.add('else')
				out += self.suite('else:', d, level, in_func, in_loop)
			return out
		if x < 0.73:
			self.f.add('stmt:while')
			return self.suite(f'while {self.expr(d - 1)}:', d, level, in_func, True)
		if x < 0.81:
			self.f.add('stmt:for')
			names = ', '.join(r.sample(NAMES, r.choice([1, 1, 2])))
			it = self.expr(d - 1) if r.random() < 0.85 else self.expr(d - 2) + ', ' + self.expr(d - 2)
			return self.suite(f'for {names} in {it}:', d, level, in_func, True)
		if x < 0.86:
			self.f.add('stmt:try')
			out = self.suite('try:', d, level, in_func, in_loop)
			for _ in range(r.choice([1, 1, 2])):
				h = 'except ' + r.choice(CLASSES[-2:] + ['mod.Err']) + (' as e' if r.random() < 0.9 else '') + ':'
				out += self.suite(h, d, level, in_func, in_loop)
			return out
		if x < 0.90 and self.o['with']:
			self.f.add('stmt:with')
			items = []
			for _ in range(r.choice([1, 1, 2])):
				e = self.expr(d - 1)
				# `with (a, b):` is two parenthesised with-items for CPython >= 3.9 but one tuple-valued item for the lark grammar
				# (open finding of C02); a leading parenthesis is only kept together with `as`
				force_as = e.startswith('(') and not self.o.get('with_paren_tuple', False)
				items.append(e + (' as ' + self.name() if force_as or r.random() < 0.6 else ''))
			return self.suite('with ' + ', '.join(items) + ':', d, level, in_func, in_loop)
		if x < 0.955 and not (in_func and not in_class and x >= 0.93):
			kind = None
			if in_class:
				kind = r.choice(['method', 'method', 'classmethod', 'init', 'init', 'plain'])
			return self.function(d, level, kind)
		if self.o['class']:
			self.f.add('stmt:class' + (':in-function' if in_func else ''))
			bases = r.sample(CLASSES, r.choice([0, 0, 1, 2]))
			head = 'class ' + r.choice(CLASSES[:6]) + ('(' + ', '.join(bases) + ')' if bases or r.random() < 0.1 else '') + ':'
			return self.decorators(level) + self.suite(head, d, level, False, False, in_class=True)
		return [pad + self.simple(max(d, 1), in_func, in_loop)]

	def module(self, n_stmts: int | None = None) -> str:
		r = self.r
		n = n_stmts or r.choice([1, 2, 3, 5, 8])
		lines: list[str] = []
		for _ in range(n):
			lines.extend(self.statement(self.max_depth, 0, False, False))
			if r.random() < 0.3:
				lines.append('')
		return '\n'.join(lines) + '\n'
