"""Projects with knobs for the history checks (C04, C05, C06): small module graphs in which an edit to a leaf changes a *type*
that flows, through inference only, into the text emitted for modules further up (chain: l -> m -> r, diamond: l -> a, l -> b, a+b -> r,
plus an unrelated module u)."""
from __future__ import annotations

import random

LEAF_T = {
	'int': ("int", "7", "n + 1", "0"),
	'str': ("str", "'s7'", "n + 'x'", "''"),
	'float': ("float", "1.5", "n + 0.5", "0.0"),
}


def kernel(variant: dict) -> str:
	"""Module below the leaf ('deep' shape): decides a type that reaches the importers of the leaf only through the leaf's inferred SEED."""
	t, lit, step, zero = LEAF_T[variant.get('t', 'int')]
	lines = [f'def kernel_val() -> {t}:', f'\treturn {lit}', '', '']
	for i in range(variant.get('extra', 0)):
		lines += [f'def kernel_extra_{i}(a: int) -> int:', f'\treturn a + {i}', '', '']
	return '\n'.join(lines).rstrip('\n') + '\n'


def leaf(variant: dict, kernel_name: str | None = None) -> str:
	t, lit, step, zero = LEAF_T[variant.get('t', 'int')]
	enum_v = variant.get('enum', 1)
	extra = variant.get('extra', 0)
	# SEED: un-annotated module variable; with a kernel module its type is whatever kernel_val() returns (the leaf's text stays the same)
	head = ['from enum import Enum', 'from typing import Generic, TypeVar'] + ([f'from {kernel_name} import kernel_val'] if kernel_name else []) + ['', f'SEED = kernel_val()' if kernel_name else f'SEED = {lit}', '# a module variable of a generic type: importers take the type of its elements from the row of their import symbol', 'ROWS: list[list[int]] = [[1, 2], [3]]']
	lines = [
		*head, '', '',
		'class Tone(Enum):', f'\tLOW = {enum_v}', f'\tHIGH = {enum_v + 1}', '', '',
		'class Item:', f'\tvalue: {t}', '\tcount: int', '',
		f'\tdef __init__(self, value: {t}, count: int = 1) -> None:', '\t\tself.value = value', '\t\tself.count = count', '',
		f'\tdef bumped(self) -> {t}:', '\t\tn = self.value', f'\t\treturn {step}', '', '',
		# a generic class and a subclass that fixes its argument: the member's type is found through the subclass's bases
		# a comment the stock grammar drops in the lexer (a project grammar without that rule keeps it as a comment statement)
		'# type: ignore', "T = TypeVar('T')", '', '',
		'class Crate(Generic[T]):', '\tload: T', '', '\tdef __init__(self, load: T) -> None:', '\t\tself.load = load', '', '',
		'class IntCrate(Crate[int]):', '\tdef __init__(self) -> None:', '\t\tsuper().__init__(1)', '', '',
		f'def base_val() -> {t}:', f'\treturn {lit}', '', '',
		# eleven parameters: more than ten attributes on one level of the function's symbol
		'def wide(' + ', '.join(f'a{i}: int' for i in range(11)) + ') -> str:', "\treturn 'w'", '', '',
		'def make_item() -> Item:', '\treturn Item(base_val())', '', '',
	]
	for i in range(extra):
		lines += [f'def extra_{i}(a: int) -> int:', f'\treturn a + {i}', '', '']
	return '\n'.join(lines).rstrip('\n') + '\n'


def mid(name_of_leaf: str, variant: dict, tag: str = 'm') -> str:
	wrap = variant.get('wrap', 'plain')
	lines = ['from collections.abc import Callable', f'from {name_of_leaf} import Item, Tone, IntCrate, base_val, make_item, wide, SEED, ROWS', '', '']
	# the first definition sits at the same tree position in every mid module: a type-parameterised function in one, a plain one in the others
	if tag == 'a':
		lines += [f'def {tag}_first[T](v: T) -> T:', '\treturn v', '', '']
	else:
		lines += [f'def {tag}_first(v: int) -> int:', '\treturn v', '', '']
	lines += [f'def {tag}_crate() -> int:', '\tcrate = IntCrate()', '\tcl = crate.load', '\treturn cl', '', '']
	lines += [f'def {tag}_wide() -> int:', '\twv = wide(' + ', '.join(str(i) for i in range(11)) + ')', '\twvs = [wv]', '\treturn len(wvs)', '', '']
	lines += [f'def {tag}_rows() -> int:', '\trow = ROWS[0]', '\tcell = row[0]', '\treturn len(row) + cell', '', '']
	lines += [f'def {tag}_seed() -> int:', '\tseed = SEED', '\tseeds = [SEED, seed]', '\treturn len(seeds)', '', '']
	# the only dict type of the project (a user template may request an include for it): root has none
	lines += [f'def {tag}_table() -> int:', "\ttable: dict[str, int] = {'k': 1}", '\ttotal = 0', '\tfor tk, tv in table.items():', '\t\ttotal = total + tv + len(tk)', '\tnames = [tk2 for tk2 in table.keys()]', "\thas = 'k' in table", '\treturn len(table) + total + len(names)', '', '']
	# closures capturing several names: the order of a capture list is part of the emitted text
	lines += [f'def {tag}_closure(n: int) -> int:', '\talpha = n + 1', '\tbeta = n + 2', '\tgamma = n + 3', '\tdelta = n + 4',
		'\tdef inner(k: int) -> int:', '\t\treturn gamma + alpha + k + delta + beta', '',
		'\tfn: Callable[[int], int] = lambda q: delta + q + alpha + gamma', '\treturn inner(1) + fn(2)', '', '']
	if wrap == 'plain':
		lines += [f'def {tag}_val() -> Item:', '\tv = base_val()', '\treturn Item(v, 2)', '', '']
	elif wrap == 'list':
		lines += [f'def {tag}_val() -> Item:', '\tvs = [base_val(), base_val()]', '\treturn Item(vs[0], len(vs))', '', '']
	else:
		lines += [f'def {tag}_val() -> Item:', '\tit = make_item()', '\tb = it.bumped()', '\treturn Item(b, 3)', '', '']
	lines += [f'def {tag}_tone() -> int:', '\tt = Tone.HIGH', '\treturn Tone.LOW.value + Tone.HIGH.value', '', '']
	lines += [f'class {tag.upper()}Box:', '\titem: Item', '', '\tdef __init__(self) -> None:', f'\t\tself.item = {tag}_val()', '',
		f'\tdef peek(self) -> int:', '\t\tx = self.item.value', '\t\tc = self.item.count', '\t\treturn c', '', '']
	for i in range(variant.get('extra', 0)):
		lines += [f'def {tag}_extra_{i}(a: int) -> int:', f'\treturn a * {i + 2}', '', '']
	return '\n'.join(lines).rstrip('\n') + '\n'


def root(mids: list[tuple[str, str]], variant: dict, lone_module: str | None = None) -> str:
	"""mids: [(module name, tag)]"""
	lines = [f'from {lone_module} import lone'] if lone_module else []
	for m, tag in mids:
		lines.append(f'from {m} import {tag}_val, {tag}_tone, {tag.upper()}Box')
	lines += ['', '']
	lines += ['def top() -> int:']
	if lone_module:
		lines += ['\tlv = lone(1)', '\tlvs = [lv]']
	for m, tag in mids:
		lines += [f'\t{tag}_item = {tag}_val()', f'\t{tag}_v = {tag}_item.value', f'\t{tag}_b = {tag}_item.bumped()', f'\t{tag}_box = {tag.upper()}Box()', f'\t{tag}_seen = {tag}_box.item.value',
			# uses of the inferred variables: their types come from the symbol table rows of *this* module
			f'\t{tag}_w = {tag}_v', f'\t{tag}_ws = [{tag}_b, {tag}_w]', f'\t{tag}_again = {tag}_ws[0]']
	lines += ['\treturn ' + ' + '.join(f'{tag}_tone() + {tag}_box.peek()' for _, tag in mids), '', '']
	for i in range(variant.get('extra', 0)):
		lines += [f'def top_extra_{i}(a: int) -> int:', f'\treturn a - {i}', '', '']
	return '\n'.join(lines).rstrip('\n') + '\n'


def unrelated(variant: dict) -> str:
	"""Long module (more than 8 KiB in front of the part an edit changes) with a long name; root imports `lone` from it - before
	everything else, so that it is loaded before the modules whose names are prefixes of its name."""
	k = variant.get('k', 3)
	t, lit, step, zero = LEAF_T[variant.get('lt', 'int')]
	pad = [line for i in range(230) for line in (f'def filler_{i:03d}(a: int) -> int:', f'\treturn a + {i}', '', '')]
	return '\n'.join(pad + [f'def lone(a: int) -> {t}:', f'\treturn {lit}', '', '', 'class Solo:', '\tn: int', '', '\tdef __init__(self) -> None:', f'\t\tself.n = {k}', '']) + '\n'


class HistProject:
	"""Module names are dotted paths under `pkg` (files pkg/x.py relative to the project root)."""

	def __init__(self, shape: str, pkg: str = 'proj') -> None:
		self.shape = shape
		self.pkg = pkg
		self.variants: dict[str, dict] = {}
		if shape == 'chain':
			self.names = {'l': f'{pkg}.leaf', 'm': f'{pkg}.mid', 'r': f'{pkg}.root', 'u': f'{pkg}.leaf2_with_a_very_long_module_name_that_pushes_the_recorded_header_line_past_two_hundred_and_fifty_six_bytes'}  # 'leaf' is a prefix of the unrelated module's name
		elif shape == 'deep':
			# kernel <- leaf <- (mid_a, mid_b) <- root: the join of the diamond is two imports away from the module that decides the type
			self.names = {'k': f'{pkg}.kernel', 'l': f'{pkg}.leaf', 'a': f'{pkg}.mid_a', 'b': f'{pkg}.mid_b', 'r': f'{pkg}.root', 'u': f'{pkg}.mid_a2_with_a_very_long_module_name_that_pushes_the_recorded_header_line_past_two_hundred_and_fifty_six_bytes'}
		else:
			self.names = {'l': f'{pkg}.leaf', 'a': f'{pkg}.mid_a', 'b': f'{pkg}.mid_b', 'r': f'{pkg}.root', 'u': f'{pkg}.mid_a2_with_a_very_long_module_name_that_pushes_the_recorded_header_line_past_two_hundred_and_fifty_six_bytes'}  # 'mid_a' is a prefix of the unrelated module's name
		for k in self.names:
			self.variants[k] = {}

	def modules(self) -> list[str]:
		return list(self.names.values())

	def imports_of(self, key: str) -> list[str]:
		if key == 'l':
			return ['k'] if self.shape == 'deep' else []
		if key in ('u', 'k'):
			return []
		if key in ('m', 'a', 'b'):
			return ['l']
		return ['u'] + (['m'] if self.shape == 'chain' else ['a', 'b'])

	def closure_of(self, key: str) -> set[str]:
		out: set[str] = set()
		todo = [key]
		while todo:
			k = todo.pop()
			for d in self.imports_of(k):
				if d not in out:
					out.add(d)
					todo.append(d)
		return out

	def source(self, key: str) -> str:
		v = self.variants[key]
		if key == 'l':
			return leaf(v, self.names['k'] if self.shape == 'deep' else None)
		if key == 'k':
			return kernel(v)
		if key == 'u':
			return unrelated(v)
		if key == 'r':
			mids = [(self.names['m'], 'm')] if self.shape == 'chain' else [(self.names['a'], 'a'), (self.names['b'], 'b')]
			return root(mids, v, self.names['u'])
		return mid(self.names['l'], v, key)

	def sources(self) -> dict[str, str]:
		return {self.names[k]: self.source(k) for k in self.names}

	def random_edit(self, r: random.Random) -> tuple[str, dict]:
		"""Pick a module and a new variant that differs from the current one; returns (key, new variant)."""
		key = r.choice(list(self.names))
		v = dict(self.variants[key])
		if key == 'l':
			what = r.choice(['t', 't', 'enum', 'extra'])
			if what == 't':
				v['t'] = r.choice([x for x in LEAF_T if x != v.get('t', 'int')])
			elif what == 'enum':
				v['enum'] = v.get('enum', 1) + r.choice([1, 5])
			else:
				v['extra'] = (v.get('extra', 0) + 1) % 3
		elif key == 'k':
			if r.random() < 0.8:
				v['t'] = r.choice([x for x in LEAF_T if x != v.get('t', 'int')])
			else:
				v['extra'] = (v.get('extra', 0) + 1) % 3
		elif key == 'u':
			if r.random() < 0.5:
				v['k'] = v.get('k', 3) + 1
			else:
				v['lt'] = r.choice([x for x in LEAF_T if x != v.get('lt', 'int')])
		elif key == 'r':
			v['extra'] = (v.get('extra', 0) + 1) % 3
		else:
			what = r.choice(['wrap', 'extra'])
			if what == 'wrap':
				v['wrap'] = r.choice([x for x in ('plain', 'list', 'bump') if x != v.get('wrap', 'plain')])
			else:
				v['extra'] = (v.get('extra', 0) + 1) % 3
		return key, v
