"""Construct catalogue for C01: one tiny function per construct *variant* of the supported subset (every form of range, every kind of
list fill, every container method, every string method with a C++ mapping, every declaration form ...), each executed on several
argument vectors by the same differential harness as the random programs (CPython is the oracle, nothing is hand-expected).

The random generator reaches these constructs too, but a particular variant (range with two arguments and a non-zero start, a fill of
an *annotated* list, a float in the middle of an int chain) may be rare in a given seed; the catalogue makes the reach deterministic.

Left out on purpose (Python and C++ do not agree by construction, see the statement of C01): int / int, negative indices, indexing a
string (a char in C++), a recursive *nested* function (an `auto` lambda cannot name itself), `raise Exception('text')` (std::exception
has no message constructor; RuntimeError is used instead), `//` and `//=` (tranp has no C++ spelling for floor division: the operator is
emitted verbatim, which C++ reads as the start of a comment).
"""
from __future__ import annotations

from vf.gen.typed import BOOL, FLOAT, INT, STR, Entry, Program

HEAD = '''from collections.abc import Callable
from enum import Enum


def clamp(n: int) -> int:
	if n > 10000:
		return 10000
	if n < -10000:
		return -10000
	return n


def absi(n: int) -> int:
	return n if n >= 0 else -n


def fact(k: int) -> int:
	return 1 if k <= 1 else k * fact(k - 1)


class Color(Enum):
	RED = 1
	DARK_RED = 5
	GREEN = 7


class Base:
	n: int
	label: str

	def __init__(self, n: int, label: str = 'b') -> None:
		self.n = n
		self.label = label

	def total(self) -> int:
		return self.n + len(self.label)

	@property
	def twice(self) -> int:
		return self.n * 2

	@classmethod
	def make(cls) -> 'Base':
		return Base(3, 'made')


class Acc:
	_base: int
	total: int
	__hidden: int
	shown: int

	def __init__(self, n: int) -> None:
		self._base = n + 1
		self.total = self._base * 2
		self.__hidden = self.total + 1
		self.shown = self.__hidden * 3

	def all(self) -> int:
		return self._base + self.total * 10 + self.__hidden * 100 + self.shown * 1000


class Cnt:
	n: int

	def __init__(self, n: int) -> None:
		self.n = n

	def wrap(self, a: int, b: int) -> int:
		self.n %= a + b
		self.n += a * 2 - b
		self.n *= b - a + 7
		return self.n


def make_adder(k: int) -> Callable[[int], int]:
	def add(x: int) -> int:
		return x + k

	return add


def make_scaler(k: int, m: int) -> Callable[[int], int]:
	return lambda x: x * k + m


class Sub(Base):
	ratio: float

	def __init__(self, n: int) -> None:
		super().__init__(n, 'sub')
		self.ratio = 0.5

	def total(self) -> int:
		return self.n * 10


'''

INTS = [[0], [1], [-1], [2], [5], [7], [-13], [50]]
PAIRS = [[0, 0], [1, 2], [3, 1], [-1, 4], [5, 5], [7, -2], [2, 9]]
IF = [[0, 0.0], [1, 0.5], [2, 1.5], [-3, 0.25], [7, 2.0], [4, -1.5]]
STRS = [[''], ['a'], ['ab'], ['abc'], ['hello'], ['k1'], ['a,b,c']]

# (name, parameters, return type, body lines, vectors)
FUNCS: list[tuple[str, list[tuple[str, tuple]], tuple, list[str], list[list]]] = [
	# -- every form of range
	('range1', [('n', INT)], INT, ['t = 0', 'for i in range(absi(n) % 6):', '\tt = t * 3 + i', 'return t'], INTS),
	('range2', [('a', INT), ('b', INT)], INT, ['t = 0', 'for i in range(absi(a) % 4 + 1, absi(b) % 7 + 5):', '\tt = t * 3 + i', 'return clamp(t)'], PAIRS),
	('range2_lit', [('n', INT)], INT, ['t = n', 'for i in range(2, 6):', '\tt = clamp(t * 2 + i)', 'return t'], INTS),
	('range3', [('a', INT), ('b', INT)], INT, ['t = 0', 'for i in range(absi(a) % 3, 12, absi(b) % 3 + 1):', '\tt = t * 2 + i', 'return clamp(t)'], PAIRS),
	('range_len', [('n', INT)], INT, ['xs = [n, 2, 5]', 't = 0', 'for i in range(len(xs)):', '\tt = t * 3 + xs[i] + i', 'return clamp(t)'], INTS),
	('range_comp', [('n', INT)], ('list', INT), ['return [i * 2 for i in range(1, absi(n) % 5 + 2)]'], INTS),
	('for_enumerate', [('n', INT)], INT, ['xs = [n, 4, 9]', 't = 0', 'for i, x in enumerate(xs):', '\tt = t * 3 + i * x', 'return clamp(t)'], INTS),
	('for_items', [('n', INT)], INT, ["d = {'a': n, 'bc': 2}", 't = 0', 'for k, v in d.items():', '\tt = t + v * len(k)', 'return clamp(t)'], INTS),
	('for_keys_values', [('n', INT)], INT, ["d = {'a': n, 'bc': 2}", 't = 0', 'for k in d.keys():', '\tt = t + len(k)', 'for v in d.values():', '\tt = t + v', 'return clamp(t)'], INTS),
	('while_break', [('n', INT)], INT, ['k = absi(n) % 9', 't = 0', 'while k > 0:', '\tk -= 1', '\tif k == 3:', '\t\tcontinue', '\tif t > 20:', '\t\tbreak', '\tt = t + k', 'return t'], INTS),
	# -- list fills and literals, annotated and not
	('fill_anno_int', [('n', INT)], ('list', INT), ['xs: list[int] = [n] * 3', 'return xs'], INTS),
	('fill_anno_int_rev', [('n', INT)], ('list', INT), ['xs: list[int] = 4 * [n]', 'return xs'], INTS),
	('fill_plain_int', [('n', INT)], ('list', INT), ['xs = [n] * 2', 'return xs'], INTS),
	('fill_anno_str', [('s', STR)], ('list', STR), ['xs: list[str] = [s] * 2', 'return xs'], STRS),
	('fill_anno_bool', [('n', INT)], ('list', BOOL), ['xs: list[bool] = [n > 1] * 3', 'return xs'], INTS),
	('fill_anno_float', [('n', INT), ('f', FLOAT)], ('list', FLOAT), ['xs: list[float] = [f] * 2', 'return xs'], IF),
	('fill_len', [('n', INT)], INT, ['xs: list[int] = [7] * (absi(n) % 4)', 'return len(xs) * 10 + (xs[0] if len(xs) > 0 else 0)'], INTS),
	('anno_from_call', [('n', INT)], INT, ['b: Base = Base(n)', 's: str = str(n)', 'return b.n + len(s)'], INTS),
	# -- arithmetic typing: float anywhere in a chain, declared through inference
	('chain_float_mid', [('a', INT), ('x', FLOAT)], FLOAT, ['b = a + 1', 'u = a + x + b', 'return u'], IF),
	('chain_float_last', [('a', INT), ('x', FLOAT)], FLOAT, ['u = a + 2 + x', 'return u'], IF),
	('chain_float_first', [('a', INT), ('x', FLOAT)], FLOAT, ['u = x - a - 1', 'return u'], IF),
	('chain_mul_div', [('a', INT), ('x', FLOAT)], FLOAT, ['u = a * x / 2.0', 'w = u + a', 'return w'], IF),
	('bool_arith', [('a', INT)], INT, ['p = a > 1', 'q = a > 3', 'u = p + q', 'w = -p', 'return u * 10 + w'], INTS),
	('ternary_types', [('a', INT), ('x', FLOAT)], FLOAT, ['u = x if a > 1 else x * 2.0', 'v = a if a > 1 else 7', 'return u + v'], IF),
	('aug_ops', [('a', INT)], INT, ['t = a', 't += 3', 't -= 1', 't *= 2', 't = clamp(t)', 'return t'], INTS),
	('modulo_floor', [('a', INT)], INT, ['return absi(a) % 7 + absi(a) % 3 * 10'], INTS),
	('bitops', [('a', INT), ('b', INT)], INT, ['x = absi(a)', 'y = absi(b)', 'return (x & y) + (x | y) * 2 + (x ^ y) * 3 + (x << 2) + (y >> 1)'], PAIRS),
	('compare_mix', [('a', INT), ('b', INT)], BOOL, ['return not a & 1 == b & 1 or a + 1 < b * 2 and a != b'], PAIRS),
	# -- augmented assignment with an operator expression on the right (the right side is one operand, whatever it is spelled like)
	('aug_rhs_expr', [('a', INT), ('b', INT)], INT, ['x = absi(a) + 20', 'y = absi(b) % 5 + 1', 'x %= y + 1', 't = x', 'x = absi(a) + 30', 'x -= y - 1', 't = t * 7 + x', 'x *= y + 1', 't = t + x', 'x += y if y > 2 else y * 3', 'return clamp(t + x)'], PAIRS),
	('aug_rhs_bits', [('a', INT), ('b', INT)], INT, ['x = absi(a) + 9', 'y = absi(b) % 4 + 1', 'x <<= y % 2 + 1', 't = x % 97', 'x >>= 1 + y % 2', 't = t * 5 + x % 89', 'x &= y | 6', 't = t * 5 + x', 'x |= y & 3', 't = t * 5 + x', 'x ^= y + 1', 'return (t * 5 + x) % 9973'], PAIRS),
	('aug_rhs_field', [('a', INT), ('b', INT)], INT, ['c = Cnt(absi(a) + 11)', 'return clamp(c.wrap(absi(b) % 3 + 1, 2) * 10 + c.n)'], PAIRS),
	('aug_rhs_float', [('a', INT), ('x', FLOAT)], FLOAT, ['u = x + 8.0', 'u -= a - 1.5', 'u *= x + 1.0', 'u /= 2.0 + 2.0', 'return u'], IF),
	# -- continue / break of an inner loop inside an enumerate loop (and the other way round)
	('enumerate_inner_continue', [('n', INT)], INT, ['xs = [n, 4, 9, 2]', 't = 0', 'for i, x in enumerate(xs):', '\tfor k in range(3):', '\t\tif k == 1:', '\t\t\tcontinue', '\t\tt = t + k', '\tw = x', '\twhile w > 0:', '\t\tw = w - 3', '\t\tif w == 1:', '\t\t\tcontinue', '\t\tt = t + 1', '\tif x == 4:', '\t\tcontinue', '\tt = clamp(t * 3 + i * 10 + absi(x))', 'return t'], INTS),
	('enumerate_nested', [('n', INT)], INT, ['xs = [n, 4]', 'ys = [1, 2, 3]', 't = 0', 'for i, x in enumerate(xs):', '\tfor j, y in enumerate(ys):', '\t\tif y == 2:', '\t\t\tcontinue', '\t\tt = (t * 2 + i * 10 + j + absi(x) % 3) % 9973', '\tt = t + i', 'return t'], INTS),
	# -- closures that outlive the call that made them
	('closure_factory', [('n', INT)], INT, ['f = make_adder(3)', 'g = make_adder(n)', 'h = make_scaler(n, 2)', 'k = make_scaler(5, n)', 'return clamp(f(10) + g(1) * 3 + h(3) * 5 + k(2) * 7)'], INTS),
	# -- strings
	('str_slices', [('s', STR)], STR, ["t = s + 'xyz'", 'return t[1:] + t[:2] + t[1:3]'], STRS),
	('str_methods', [('s', STR)], INT, ["t = s + 'a,b'", "return (1 if t.startswith('a') else 0) + (2 if t.endswith('b') else 0) + t.find('b') * 4 + len(t) * 100"], STRS),
	('str_cmp', [('s', STR)], INT, ["return (1 if s == 'ab' else 0) + (2 if s != 'a' else 0) + (4 if s < 'b' else 0) + (8 if 'a' + s > s else 0)"], STRS),
	('str_of_int', [('n', INT)], STR, ["return str(n) + '|' + str(n * 2)"], INTS),
	('str_in', [('s', STR)], BOOL, ["d = {'a': 1, 'ab': 2}", 'return s in d'], STRS),
	('enum_name_value', [('n', INT)], STR, ['c = Color.DARK_RED if n > 1 else Color.RED', 'return Color.GREEN.name + str(Color.DARK_RED.value + Color.RED.value)'], INTS),
	('enum_compare', [('n', INT)], INT, ['c = Color.DARK_RED if n > 1 else Color.RED', 'return (1 if c == Color.RED else 0) + (2 if c != Color.GREEN else 0)'], INTS),
	# -- containers
	('list_methods', [('n', INT)], ('list', INT), ['xs = [n, 1]', 'xs.append(5)', 'xs.insert(0, 9)', 'ys = xs.copy()', 'ys.pop()', 'xs.append(len(ys))', 'return xs'], INTS),
	('list_pop_value', [('n', INT)], INT, ['xs = [n, 1, 4]', 'a = xs.pop()', 'b = xs.pop(0)', 'return a * 100 + b * 10 + len(xs)'], INTS),
	('list_slices', [('n', INT)], ('list', INT), ['xs = [n, 1, 4, 6]', 'ys = xs[1:]', 'zs = xs[:2]', 'ys.append(zs[0])', 'ys.append(len(xs[1:3]))', 'return ys'], INTS),
	('list_in', [('n', INT)], INT, ['xs = [1, 5, n]', 'return (1 if 5 in xs else 0) + (2 if 7 in xs else 0) + (4 if n not in xs else 0)'], INTS),
	('list_store', [('n', INT)], ('list', INT), ['xs = [0, 0, 0]', 'xs[1] = n', 'xs[2] = 4', 'return xs'], INTS),
	('list_comp_cond', [('n', INT)], ('list', INT), ['xs = [n, 1, 6, 3]', 'return [x * 2 for x in xs if x > 1]'], INTS),
	('dict_ops', [('n', INT)], INT, ["d = {'a': n}", "d['b'] = 2", "d['a'] = d['a'] + 1", "x = d.get('zz', 7)", "y = d.get('a', 0)", "return x * 100 + y * 10 + len(d) + (1 if 'b' in d else 0)"], INTS),
	('dict_pop_keys', [('n', INT)], INT, ["d = {'a': n, 'b': 3}", "v = d.pop('a')", 't = v', 'for k in d.keys():', '\tt = t * 10 + len(k)', 'return clamp(t)'], INTS),
	('dict_comp', [('n', INT)], INT, ["d = {'a': n, 'bb': 3}", 'e = {k: v * 2 for k, v in d.items()}', "return e['a'] + e['bb'] * 10"], INTS),
	('tuple_ops', [('n', INT)], INT, ["t = (n, 'ab', 2)", 'a, s, b = t', 'u = (b, a)', 'x, y = u', 'return a * 100 + len(s) * 10 + b + x - y'], INTS),
	('tuple_return', [('n', INT)], ('tuple', [INT, STR]), ["return n + 1, 'v' + str(n)"], INTS),
	('nested_list', [('n', INT)], INT, ['xss = [[n, 1], [2]]', 'xss[1].append(5)', 't = 0', 'for xs in xss:', '\tfor x in xs:', '\t\tt = t * 3 + x', 'return clamp(t)'], INTS),
	# -- functions, closures, lambdas, defaults
	('default_args', [('n', INT)], INT, ['def inner(a: int, b: int = 4) -> int:', '\treturn a * 10 + b', 'return inner(n) + inner(n, 1) * 100'], INTS),
	('closure_capture', [('n', INT)], INT, ['a = n + 1', 'b = n * 2', 'c = 3', 'def inner(k: int) -> int:', '\treturn c * 100 + a * 10 + b + k', 'return clamp(inner(1))'], INTS),
	('lambda_annotated', [('n', INT)], INT, ['a = n + 1', 'fn: Callable[[int], int] = lambda q: q * 2 + a', 'return fn(3)'], INTS),
	('recursion', [('n', INT)], INT, ['return fact(absi(n) % 6)'], INTS),
	# -- classes
	('obj_methods', [('n', INT)], INT, ['b = Base(n)', 's = Sub(n)', 'return b.total() * 1000 + s.total() * 10 + s.twice + b.twice'], INTS),
	('obj_classmethod', [('n', INT)], INT, ['b = Base.make()', 'return b.n * 10 + len(b.label) + n'], INTS),
	('obj_fields', [('n', INT)], STR, ['s = Sub(n)', 's.n += 2', "s.label = s.label + 'x'", "return s.label + str(s.n) + ('h' if s.ratio > 0.25 else 'l')"], INTS),
	('obj_list', [('n', INT)], INT, ['bs = [Base(n), Base(2, \'ab\')]', 't = 0', 'for b in bs:', '\tt = t * 10 + b.total()', 'return clamp(t)'], INTS),
	# -- constructs behind defects repaired in the repository (fa5b6b0, 11269be, 6a19f4e)
	('decl_from_chained_call', [('n', INT)], INT, ['q = Base(n).total()', 'b = Sub(n)', 'w: int = Base(n, \'xy\').twice', 'return q * 100 + b.n + w'], INTS),
	('range_loose_bounds', [('n', INT)], INT, ['t = 0', 'm = absi(n)', 'for i in range(m & 3):', '\tt = t * 3 + i + 1', 'for j in range(m | 1, (m ^ 5) + 3):', '\tt = clamp(t * 2 + j)', 'for k in range(4 if m > 2 else 2):', '\tt = clamp(t + k)', 'return t'], INTS),
	('range_loose_comp', [('n', INT)], ('list', INT), ['m = absi(n)', 'xs = [q * 2 for q in range(m & 3)]', 'xs.append(len(xs))', 'return xs'], INTS),
	('quoted_strings', [('n', INT)], STR, ["a = 'a\"b'", "b = '''abc'''", 'c = \"\"\"x\"y\"\"\"', "d = 'it\\'s'", "e = '''l1\\nl2'''", 'return a + b + c + d + e + str(n)'], INTS),
	('quoted_strings_escapes', [('n', INT)], STR, [r"a = 'say \"hi\"'", r"b = '''tail\\'s'''", r"c = 'a\\\"b'", r"d = 'q\\'", r"e = 'tab\\there'", r"g = 'it\'s \"so\"'", "return a + '|' + b + '|' + c + '|' + d + '|' + e + '|' + g + str(n)"], INTS),
	('field_init_order', [('n', INT)], INT, ['a = Acc(absi(n) % 5)', 'return clamp(a.all() + a.total + a.shown)'], INTS),
	('comma_in_strings', [('n', INT)], INT, ["d = {k: 'a,b' for k in range(absi(n) % 3 + 1)}", "e = {'x,y': 1, 'z': 2}", 't = 0', 'for k, v in d.items():', '\tt = t + k + len(v)', "return t * 10 + len(e) + e['x,y']"], INTS),
	('raise_with_comma', [('n', INT)], INT, ['t = 0', 'try:', '\tif n > 1:', "\t\traise RuntimeError('too big, stop (now)')", '\tt = 1', 'except RuntimeError as e:', '\tt = 2', 'return t'], INTS),
	# -- exceptions
	('try_raise', [('n', INT)], INT, ['t = 0', 'try:', '\tif n > 1:', "\t\traise RuntimeError('x')", '\tt = 1', 'except RuntimeError as e:', '\tt = 2', 'return t'], INTS),
	('casts', [('n', INT), ('f', FLOAT)], INT, ['a = int(f * 2.0)', 'b = float(n) + 0.5', 'c = int(b)', 'return a * 100 + c'], IF),
	('min_max_abs', [('a', INT), ('b', INT)], INT, ['m = a if a > b else b', 'return m * 10 + absi(a - b)'], PAIRS),
]


def catalogue_programs(per_program: int = 16) -> list[Program]:
	out = []
	for i in range(0, len(FUNCS), per_program):
		chunk = FUNCS[i:i + per_program]
		src = HEAD
		entries = []
		for name, params, ret, body, vectors in chunk:
			rt = ret
			sig = ', '.join(f'{p}: {_ann(t)}' for p, t in params)
			src += f'def {name}({sig}) -> {_ann(rt)}:\n' + ''.join('\t' + line + '\n' for line in body) + '\n\n'
			entries.append(Entry(name, params, rt if rt[0] != 'tuple' else ('tuple', tuple(rt[1])), vectors))
		out.append(Program(src, entries, {}, {}, {'catalogue'}, ['clamp', 'absi']))
	return out


def _ann(t: tuple) -> str:
	k = t[0]
	if k in ('int', 'float', 'bool', 'str'):
		return k
	if k == 'list':
		return f'list[{_ann(t[1])}]'
	if k == 'tuple':
		return 'tuple[' + ', '.join(_ann(x) for x in t[1]) + ']'
	raise ValueError(t)
