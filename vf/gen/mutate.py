"""Mutators for C07 (byte level and token level) and ill-typed program templates."""
from __future__ import annotations

import io
import random
import tokenize

BYTES = list('()[]{}:,.=+-*/%&|^~<>!@#\'"\\ \t\n') + ['\r', 'é', '日', '\x0c', '0', 'x', 'def', 'class', 'if', 'else', 'return', 'lambda', 'not', 'in', 'is', '**', '//', ':=', '->', '"""', "'''", 'self', 'None', '...']


def mutate_bytes(r: random.Random, text: str) -> tuple[str, str]:
	kind = r.choice(['flip', 'insert', 'delete', 'duplicate', 'truncate', 'swap-lines'])
	if not text:
		return r.choice(BYTES), 'insert'
	i = r.randrange(len(text))
	if kind == 'flip':
		return text[:i] + r.choice(BYTES) + text[i + 1:], kind
	if kind == 'insert':
		return text[:i] + r.choice(BYTES) + text[i:], kind
	if kind == 'delete':
		j = min(len(text), i + r.choice([1, 1, 2, 5]))
		return text[:i] + text[j:], kind
	if kind == 'duplicate':
		j = min(len(text), i + r.choice([1, 3, 10]))
		return text[:j] + text[i:j] + text[j:], kind
	if kind == 'truncate':
		return text[:i], kind
	lines = text.split('\n')
	if len(lines) > 2:
		a, b = r.randrange(len(lines)), r.randrange(len(lines))
		lines[a], lines[b] = lines[b], lines[a]
	return '\n'.join(lines), kind


def mutate_tokens(r: random.Random, text: str) -> tuple[str, str]:
	try:
		toks = list(tokenize.generate_tokens(io.StringIO(text).readline))
	except Exception:  # noqa
		return mutate_bytes(r, text)
	sig = [t for t in toks if t.type in (tokenize.NAME, tokenize.NUMBER, tokenize.STRING, tokenize.OP)]
	if len(sig) < 2:
		return mutate_bytes(r, text)
	kind = r.choice(['delete', 'swap', 'duplicate', 'replace', 'reindent', 'drop-closer', 'dedent-all'])
	lines = text.split('\n')
	t = r.choice(sig)
	ln = t.start[0] - 1
	if kind in ('delete', 'duplicate', 'replace') and t.start[0] == t.end[0]:
		line = lines[ln]
		a, b = t.start[1], t.end[1]
		if kind == 'delete':
			lines[ln] = line[:a] + line[b:]
		elif kind == 'duplicate':
			lines[ln] = line[:b] + ' ' + line[a:b] + line[b:]
		else:
			lines[ln] = line[:a] + r.choice(sig).string.split('\n')[0] + line[b:]
	elif kind == 'swap':
		u = r.choice(sig)
		if u.start[0] == u.end[0] == t.start[0] == t.end[0] and u.start[1] > t.end[1]:
			line = lines[ln]
			lines[ln] = line[:t.start[1]] + u.string + line[t.end[1]:u.start[1]] + t.string + line[u.end[1]:]
	elif kind == 'reindent':
		lines[ln] = r.choice(['', '\t', '\t\t\t', '  ', ' \t']) + lines[ln].lstrip()
	elif kind == 'drop-closer':
		closers = [x for x in sig if x.string in ')]}' and x.start[0] == x.end[0]]
		if closers:
			c = r.choice(closers)
			line = lines[c.start[0] - 1]
			lines[c.start[0] - 1] = line[:c.start[1]] + line[c.end[1]:]
	else:
		lines = [l.lstrip() for l in lines]
	return '\n'.join(lines), 'token-' + kind


def token_soup(r: random.Random, alphabet: list[str], n: int) -> str:
	out = []
	for _ in range(n):
		out.append(r.choice(alphabet))
		out.append(r.choice([' ', ' ', '', '\n', '\n\t', ' ']))
	return ''.join(out) + '\n'


ILL_TYPED = [
	'@__actual__(1.0)\nclass A: ...\n', '@__actual__(1)\nclass A:\n\tpass\n', '@__actual__()\nclass A: ...\n', "@__actual__('int', 2)\nclass A: ...\n",
	'x: dict[int] = {}\n', 'def f(a: dict[str]) -> None:\n\tpass\n', 'class A:\n\tdef __init__(self) -> None:\n\t\tself.m: dict[str] = {}\n', 'def f() -> None:\n\tx: tuple[()] = ()\n',
	'def f() -> None:\n\ta = a\n', 'x = x + 1\n', 'a = b\nb = a\n', 'def f() -> None:\n\tfor i in i:\n\t\tpass\n', 'class A(A):\n\tpass\n\n\ndef f() -> None:\n\tA().x\n', 'class A(B):\n\tpass\n\n\nclass B(A):\n\tpass\n\n\ndef f() -> None:\n\tB().x\n',
	'def f() -> None:\n\ta = len()\n', 'def f() -> None:\n\ta = super()\n', 'def f() -> None:\n\tfor i in range(1, 2, 3, 4):\n\t\tpass\n',
	'def f(a) -> int:\n\treturn a + 1\n',
	'def f(a, b: int = 2) -> int:\n\tc = a\n\treturn c\n',
	'def f(a) -> int:\n\treturn 1\n',
	'class A:\n\tdef f(self, a=1) -> int:\n\t\treturn a\n',
	"def f(m: int) -> None:\n\tfor i in 'neg'(m):\n\t\tpass\n",
	'def f(a: list[int]) -> None:\n\tx = {k: v for k, v in a}\n',
	'class A(A):\n\tdef m(self) -> None:\n\t\tself.m()\n',
	'def __init__(self) -> None:\n\tself.x = 1\n',
	'def f(a, b) -> None:\n\tc = a + b\n',
	'def f(*args, **kwargs) -> None:\n\tpass\n',
	'def f(a: int) -> int:\n\treturn undefined_name + a\n',
	'def f(a: int) -> int:\n\treturn a.no_such_attr\n',
	'def f(a: int) -> int:\n\treturn g(a)\n',
	'def f(a: int, b: int) -> int:\n\treturn a\n\ndef g() -> int:\n\treturn f(1)\n',
	'def f(a: int) -> int:\n\tx, y = a\n\treturn x\n',
	'def f(a: int) -> None:\n\tx = a if a else "s"\n',
	'def f(xs: list[int]) -> None:\n\ty = [*xs, *xs]\n',
	'@unknown.deco(1)\ndef f() -> None:\n\tpass\n',
	'class A:\n\tpass\n\ndef f(a: A, b: A) -> A:\n\treturn a + b\n',
	'class A:\n\tpass\n\ndef f(a: A) -> bool:\n\treturn a < a\n',
	'def f() -> None:\n\tg = lambda q: g(q)\n',
	'def f(a: int) -> str:\n\treturn a[0]\n',
	'def f(a: str) -> int:\n\treturn a.split(1, 2, 3).nothing\n',
	'class A(Missing):\n\tpass\n',
	'from nowhere.module import Thing\n\ndef f(t: Thing) -> None:\n\tpass\n',
	'def f() -> None:\n\tfor a, b in 5:\n\t\tpass\n',
	'def f(d: dict[str, int]) -> int:\n\treturn d.get()\n',
	'class A:\n\tx: int\n\tdef __init__(self) -> None:\n\t\tself.y = 1\n\tdef m(self) -> int:\n\t\treturn self.z\n',
	'def f() -> int:\n\treturn\n',
	'x: UnknownType = 1\n',
	'def f(a: int) -> int:\n\treturn a(1)\n',
	'def f() -> None:\n\tsuper().__init__()\n',
	'class E(Enum):\n\tA = 1\n\ndef f() -> int:\n\treturn E.B.value\n',
	'def f(t: tuple[int, str]) -> int:\n\ta, b, c = t\n\treturn a\n',
	'def f() -> None:\n\traise 5\n',
	'def f() -> None:\n\twith 1 as x:\n\t\tpass\n',
	'def f(a: int) -> None:\n\tdel a[0]\n',
	'def f() -> list[int]:\n\treturn [x for x in 3]\n',
	'def f() -> None:\n\tyield from 3\n',
	'import os\n',
	'def f(a, b):\n\treturn a\n',
	'def f() -> None:\n\tx = 1  # trailing comment\n',
	'def f() -> int:\n\treturn 2 ** 3 // 2\n',
]
