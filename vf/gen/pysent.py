"""Sentences of data/syntax/py_gram.lark (the grammar of tranp's own parsing engine) that are also Python.

The generator follows the alternatives of the shipped grammar one by one (rule names are kept in comments); where the
engine's grammar derives more than Python accepts (walrus with a non-name target or outside parentheses/conditions, keyword
arguments before positionals) only the common part is produced. Layout: one blank between tokens, none after a unary minus,
tabs for blocks – the layout the engine's tokenizer is specified for.
"""
from __future__ import annotations

import random

NAMES = ['a', 'b', 'c', 'x', 'y', 'zed', 'foo', 'bar', 'n', 'i', 'j', 'val', 'obj', 'xs', 'f', 'g', 'self_', 'item']
TYPES = ['int', 'str', 'float', 'bool', 'Item']


class PySent:
	def __init__(self, r: random.Random, max_depth: int = 4) -> None:
		self.r = r
		self.max_depth = max_depth
		self.f: set[str] = set()

	def name(self) -> str:
		return self.r.choice(NAMES)

	# ---- atom[1] := boolean | none | var | string | digit | decimal | list | tuple | dict | "(" expr ")"
	def atom(self, d: int) -> str:
		r = self.r
		x = r.random()
		if d <= 0:
			x *= 0.6
		if x < 0.3:
			return self.name()
		if x < 0.4:
			self.f.add('digit')
			return r.choice(['0', '1', '2', '7', '10', '42', '100'])
		if x < 0.46:
			self.f.add('decimal')
			return r.choice(['0.5', '1.25', '10.0', '3.14'])
		if x < 0.53:
			self.f.add('string')
			return r.choice(["'a'", '"b c"', "''", '"x, y"', "'it\\'s'", '"q\\"q"', "'(: ='"])
		if x < 0.57:
			self.f.add('boolean')
			return r.choice(['True', 'False'])
		if x < 0.6:
			self.f.add('none')
			return 'None'
		if x < 0.7:
			self.f.add('group')
			return '( ' + self.expr(d - 1, walrus_ok=True) + ' )'
		if x < 0.8:
			self.f.add('list')
			n = r.choice([0, 1, 2, 3])
			return '[ ' + ' , '.join(self.expr(d - 1) for _ in range(n)) + ' ]' if n else '[ ]'
		if x < 0.9:
			self.f.add('tuple')
			n = r.choice([2, 2, 3])
			return '( ' + ' , '.join(self.expr(d - 1) for _ in range(n)) + ' )'
		self.f.add('dict')
		n = r.choice([0, 1, 2])
		items = [r.choice(["'k'", '"key"', "'a b'"]) + ' : ' + self.expr(d - 1) for _ in range(n)]
		return '{ ' + ' , '.join(items) + ' }' if n else '{ }'

	# ---- args[*] := (arg ",")* arg ; arg[*] := (name "=" | packing)? expr
	def args(self, d: int) -> str:
		r = self.r
		parts = [self.expr(d, walrus_ok=r.random() < 0.3) for _ in range(r.choice([0, 1, 1, 2, 3]))]
		for _ in range(r.choice([0, 0, 1, 2])):
			if r.random() < 0.7:
				self.f.add('arg:keyword')
				parts.append(self.name() + ' = ' + self.expr(d))
			else:
				self.f.add('arg:*')
				parts.append('*' + self.primary(d - 1))
		for _ in range(r.choice([0, 0, 0, 1])):
			self.f.add('arg:**')
			parts.append('**' + self.primary(d - 1))
		return ' , '.join(parts)

	# ---- primary[1] := relay | invoke | indexer | atom
	def primary(self, d: int) -> str:
		r = self.r
		base = self.atom(d) if r.random() < 0.35 else self.name()
		n = r.choice([0, 0, 1, 1, 2, 3]) if d > 0 else r.choice([0, 0, 1])
		# python: a number literal followed by '.' would lex as a float; keep attribute access off number literals
		for k in range(n):
			x = r.random()
			if x < 0.4 and not base[-1].isdigit():
				self.f.add('relay')
				base += ' . ' + self.name()
			elif x < 0.75:
				self.f.add('invoke')
				a = self.args(d - 1)
				base += ' ( ' + a + ' )' if a else ' ( )'
			else:
				self.f.add('indexer')
				m = r.choice([1, 1, 1, 2, 3])
				if m > 1:
					self.f.add('slice')
				base += ' [ ' + ' : '.join(self.expr(d - 1) for _ in range(m)) + ' ]'
		return base

	# ---- unary[1] := (op_unary)? primary
	def unary(self, d: int) -> str:
		if self.r.random() < 0.2:
			self.f.add('unary-minus')
			return '-' + self.primary(d)
		return self.primary(d)

	def chain(self, sub, ops: list[str], d: int, tag: str) -> str:
		r = self.r
		if d <= 0 or r.random() < 0.6:
			return sub(d)
		n = r.choice([2, 2, 3])
		out = sub(d - 1)
		for _ in range(n - 1):
			op = r.choice(ops)
			self.f.add(f'{tag}:{op}')
			out += f' {op} ' + sub(d - 1)
		return out

	# ---- calc_mul / calc_sum / comp / comp_not / comp_and / comp_or
	def calc_mul(self, d: int) -> str:
		return self.chain(self.unary, ['*', '/', '%'], d, 'mul')

	def calc_sum(self, d: int) -> str:
		return self.chain(self.calc_mul, ['+', '-'], d, 'sum')

	def comp(self, d: int) -> str:
		return self.chain(self.calc_sum, ['<', '>', '==', '<=', '>=', '!=', 'in', 'not in', 'is', 'is not'], d, 'cmp')

	def comp_not(self, d: int) -> str:
		if self.r.random() < 0.15:
			self.f.add('not')
			return 'not ' + self.comp(d)
		return self.comp(d)

	def comp_and(self, d: int) -> str:
		return self.chain(self.comp_not, ['and'], d, 'bool')

	def comp_or(self, d: int) -> str:
		return self.chain(self.comp_and, ['or'], d, 'bool')

	# ---- expr_move[1] := (comp_or ":=")? comp_or     (python: target must be a name, and only in parentheses / conditions / arguments)
	def expr_move(self, d: int, walrus_ok: bool) -> str:
		if walrus_ok and d > 0 and self.r.random() < 0.25:
			self.f.add('walrus')
			return self.name() + ' := ' + self.comp_or(d - 1)
		return self.comp_or(d)

	# ---- ternary[1] := (expr_move "if" expr_move "else")? expr_move
	def ternary(self, d: int, walrus_ok: bool) -> str:
		if d > 0 and self.r.random() < 0.2:
			self.f.add('ternary')
			return f'{self.expr_move(d - 1, False)} if {self.expr_move(d - 1, False)} else {self.expr_move(d - 1, False)}'
		return self.expr_move(d, walrus_ok)

	# ---- lambda[1] := ("lambda" [var_names] ":")? ternary
	def expr(self, d: int, walrus_ok: bool = False) -> str:
		r = self.r
		if d > 0 and r.random() < 0.12:
			self.f.add('lambda')
			names = r.sample(NAMES, r.choice([0, 1, 2]))
			head = 'lambda ' + ' , '.join(names) + ' :' if names else 'lambda :'
			return head + ' ' + self.ternary(d - 1, False)
		return self.ternary(d, walrus_ok)

	# ---- statements
	def move_target(self, d: int) -> str:
		r = self.r
		x = r.random()
		if x < 0.55:
			return self.name()
		if x < 0.8:
			self.f.add('target:relay')
			recv = self.primary(min(d, 1))
			if recv[-1].isdigit():
				recv = self.name()
			return recv + ' . ' + self.name()
		self.f.add('target:indexer')
		return self.name() + ' [ ' + self.expr(d - 1) + ' ]'

	def line(self, d: int, in_loop: bool, in_func: bool) -> str:
		r = self.r
		x = r.random()
		if x < 0.35:
			self.f.add('stmt:move')
			t = self.move_target(d)
			# `0 . x` style receivers: keep receivers that python parses the same way
			return t + ' = ' + self.expr(d)
		if x < 0.55:
			self.f.add('stmt:expr')
			return self.expr(d)
		if x < 0.68 and in_func:
			self.f.add('stmt:return')
			return 'return ' + self.expr(d) if r.random() < 0.75 else 'return'
		if x < 0.76:
			self.f.add('stmt:raise')
			return 'raise ' + self.primary(d)
		if x < 0.84 and in_loop:
			c = r.choice(['break', 'continue'])
			self.f.add('stmt:' + c)
			return c
		self.f.add('stmt:pass')
		return '...'

	def block(self, d: int, level: int, in_loop: bool, in_func: bool) -> list[str]:
		out: list[str] = []
		for _ in range(self.r.choice([1, 1, 2, 3])):
			out += self.statement(d, level, in_loop, in_func)
		return out

	def statement(self, d: int, level: int, in_loop: bool, in_func: bool) -> list[str]:
		r = self.r
		pad = '\t' * level
		x = r.random()
		if d <= 0 or x < 0.55:
			return [pad + self.line(max(d, 1), in_loop, in_func)]
		if x < 0.72:
			self.f.add('stmt:if')
			out = [pad + 'if ' + self.expr(d - 1, walrus_ok=True) + ' :'] + self.block(d - 1, level + 1, in_loop, in_func)
			for _ in range(r.choice([0, 0, 1, 2])):
				self.f.add('elif')
				out += [pad + 'elif ' + self.expr(d - 1, walrus_ok=True) + ' :'] + self.block(d - 1, level + 1, in_loop, in_func)
			if r.random() < 0.5:
				self.f.add('else')
				out += [pad + 'else :'] + self.block(d - 1, level + 1, in_loop, in_func)
			return out
		if x < 0.82:
			self.f.add('stmt:for')
			names = ' , '.join(r.sample(NAMES, r.choice([1, 1, 2])))
			return [pad + f'for {names} in {self.primary(d - 1)} :'] + self.block(d - 1, level + 1, True, in_func)
		if x < 0.9:
			self.f.add('stmt:while')
			return [pad + 'while ' + self.expr(d - 1, walrus_ok=True) + ' :'] + self.block(d - 1, level + 1, True, in_func)
		self.f.add('stmt:function')
		params = []
		seen_default = False
		for n in r.sample(NAMES, r.choice([0, 1, 2, 3])):
			p = f'{n} : {r.choice(TYPES + ["None"])}'
			if seen_default or r.random() < 0.3:
				seen_default = True
				self.f.add('param:default')
				p += ' = ' + self.expr(1)
			params.append(p)
		ret = r.choice(TYPES + ['None'])
		head = f'def {r.choice(["f", "g", "run", "make"])} ( ' + ' , '.join(params) + f' ) -> {ret} :' if params else f'def {r.choice(["f", "g", "run"])} ( ) -> {ret} :'
		return [pad + head] + self.block(d - 1, level + 1, False, True)

	def module(self) -> str:
		lines: list[str] = []
		for _ in range(self.r.choice([1, 1, 2, 3])):
			lines += self.statement(self.max_depth, 0, False, False)
		return '\n'.join(lines) + '\n'
