"""Multi-module programs for the history checks (C04, C05, C06, C14): chains and diamonds of generated modules whose
leaf definitions (field types, return types, enum values) flow to the root."""
from __future__ import annotations

import random
from dataclasses import dataclass, field

from vf.gen.typed import TypedGen, Program


@dataclass
class Project:
	modules: dict[str, Program]          # module name -> program (source + entries)
	imports: dict[str, list[str]]        # module name -> imported module names
	order: list[str]                     # dependency order (leaves first)
	features: set = field(default_factory=set)


def make_project(r: random.Random, shape: str = 'chain', prefix: str = 'm', size: int = 3, opts: dict | None = None, pkg: str = '') -> Project:
	"""shape: 'single' | 'chain' (a <- b <- c) | 'diamond' (a <- b, a <- c, b+c <- d) | 'pair' (two unrelated)"""
	def mod(i: int) -> str:
		return f'{pkg}{prefix}{i}'
	gens: dict[str, TypedGen] = {}
	progs: dict[str, Program] = {}
	imports: dict[str, list[str]] = {}
	if shape == 'single':
		deps = {mod(0): []}
	elif shape == 'chain':
		deps = {mod(0): [], mod(1): [mod(0)], mod(2): [mod(1)]}
	elif shape == 'diamond':
		deps = {mod(0): [], mod(1): [mod(0)], mod(2): [mod(0)], mod(3): [mod(1), mod(2)]}
	else:
		deps = {mod(0): [], mod(1): []}
	order = list(deps)
	feats: set = set()
	for name in order:
		g = TypedGen(random.Random(r.getrandbits(48)), size=size, opts=opts)
		lines = []
		first = True
		for d in deps[name]:
			if first:
				lines.append(g.import_from(d, gens[d]))
				first = False
			else:
				# second parent of a diamond: import only what is not known yet (same helper names come from the common root)
				other = gens[d]
				names = [n for n in list(other.funcs) + list(other.classes) + list(other.enums) if n not in g.funcs and n not in g.classes and n not in g.enums]
				g.funcs.update({k: v for k, v in other.funcs.items() if k in names})
				g.classes.update({k: v for k, v in other.classes.items() if k in names})
				g.enums.update({k: v for k, v in other.enums.items() if k in names})
				if names:
					lines.append(f'from {d} import ' + ', '.join(names))
		p = g.program(n_funcs=r.choice([2, 3]), imports=lines)
		gens[name] = g
		progs[name] = p
		imports[name] = deps[name]
		feats |= p.features
	return Project(progs, imports, order, feats)
