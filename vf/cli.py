"""Scratch projects and real command-line runs of rogw/tranp/bin/transpile.py (used by C04, C05, C06).

A scratch project lives outside /repo and /verif, has its own config.yml (absolute paths to /repo's grammar, templates and i18n
data), its own .cache/tranp and its own output directory; the CLI runs with cwd = the project, exactly as bin/transpile.sh would.
"""
from __future__ import annotations

import hashlib
import json
import os
import shutil
import subprocess
import tempfile

from vf.common import PY, REPO, ROOT


def write_config(root: str, input_globs: list[str], output_dirs: list[str] | None = None, di: dict | None = None, force: bool | None = None, template_dirs: list[str] | None = None, grammar: str | None = None) -> str:
	cfg = {
		'grammar': grammar or os.path.join(REPO, 'data/grammar.lark'),
		'template_dirs': (template_dirs or []) + [os.path.join(REPO, 'data/cpp/template')],
		'trans_mapping': os.path.join(REPO, 'data/i18n.yml'),
		'input_globs': input_globs,
		'exclude_patterns': [],
		'output_dirs': output_dirs or ['out/'],
		'output_language': 'cpp:h',
		'env': {'transpiler': {'include_dirs': ['proj/']}, 'view': {'immutable_param_types': ['std::string', 'std::vector', 'std::map', 'std::function']}},
	}
	if di:
		cfg['di'] = di
	if force is not None:
		cfg['force'] = force
	path = os.path.join(root, 'config.yml')
	with open(path, 'w') as f:
		json.dump(cfg, f, indent=1)  # JSON is YAML
	return path


def write_user_templates(root: str) -> str:
	"""A user template directory (placed in front of the stock one) that uses the documented view hook emit_depends: list and dict types
	ask for their standard headers. Returns the directory."""
	tdir = os.path.join(root, 'tpl')
	os.makedirs(os.path.join(tdir, 'type'), exist_ok=True)
	for name, header in (('list_type', '<vector>'), ('dict_type', '<map>')):
		with open(os.path.join(REPO, f'data/cpp/template/type/{name}.j2'), encoding='utf-8') as f:
			stock = f.read()
		with open(os.path.join(tdir, 'type', f'{name}.j2'), 'w', encoding='utf-8') as f:
			f.write("{{- emit_depends('" + header + "') -}}\n" + stock)
	return tdir


TYPE_IGNORE_RULE = '%ignore /#\\s*type:\\s*ignore[^\\n]*/'


def write_grammar(root: str, variant: int, mtime: float | None = None) -> str:
	"""A grammar file of the project's own: variant 0 = the stock text, variant 1 = the stock text without the lexer rule that drops
	'# type: ignore' comments (they become ordinary comment statements). Returns the path."""
	with open(os.path.join(REPO, 'data/grammar.lark'), encoding='utf-8') as f:
		text = f.read()
	if TYPE_IGNORE_RULE not in text:
		raise RuntimeError('stock grammar no longer holds the type-ignore rule the grammar variant is built from')
	if variant:
		text = text.replace(TYPE_IGNORE_RULE, '// ' + TYPE_IGNORE_RULE, 1)
	path = os.path.join(root, 'grammar.lark')
	with open(path, 'w', encoding='utf-8', newline='') as f:
		f.write(text)
	if mtime is not None:
		os.utime(path, (mtime, mtime))
	return path


def new_project_dir(prefix: str = 'vf-proj-') -> str:
	return tempfile.mkdtemp(prefix=prefix)


def write_sources(root: str, sources: dict[str, str], bump: dict[str, float] | None = None) -> None:
	"""sources: dotted module path -> text. Files get a strictly increasing mtime when `bump` gives one."""
	for mod, text in sources.items():
		path = os.path.join(root, mod.replace('.', os.sep) + '.py')
		os.makedirs(os.path.dirname(path), exist_ok=True)
		with open(path, 'w', encoding='utf-8', newline='') as f:
			f.write(text)
		if bump and mod in bump:
			os.utime(path, (bump[mod], bump[mod]))


def run_cli(root: str, args: list[str] | None = None, hashseed: str = '0', timeout: int = 300, audit_log: str | None = None, extra_env: dict | None = None) -> subprocess.CompletedProcess:
	env = dict(os.environ)
	env['PYTHONHASHSEED'] = hashseed
	env['PYTHONDONTWRITEBYTECODE'] = '1'
	env['PYTHONPATH'] = os.pathsep.join([ROOT, REPO, os.path.join(ROOT, '.deps', 'py313'), root])
	if extra_env:
		env.update(extra_env)
	script = os.path.join(REPO, 'rogw/tranp/bin/transpile.py')
	if audit_log:
		cmd = [PY, '-X', 'utf8', '-m', 'vf.mon.audit_run', audit_log, '--', script, '-c', 'config.yml', *(args or [])]
	else:
		cmd = [PY, '-X', 'utf8', script, '-c', 'config.yml', *(args or [])]
	return subprocess.run(cmd, cwd=root, env=env, capture_output=True, text=True, timeout=timeout, errors='replace')


def run_plan(root: str, steps: list[list], hashseed: str = '0', timeout: int = 600) -> subprocess.CompletedProcess:
	"""Several runs of the real command line inside one interpreter process (vf.mon.multi_run), with edits between them."""
	import json
	env = dict(os.environ)
	env['PYTHONHASHSEED'] = hashseed
	env['PYTHONDONTWRITEBYTECODE'] = '1'
	env['PYTHONPATH'] = os.pathsep.join([ROOT, REPO, os.path.join(ROOT, '.deps', 'py313'), root])
	plan = os.path.join(root, 'vf-plan.json')
	with open(plan, 'w', encoding='utf-8') as f:
		json.dump({'script': os.path.join(REPO, 'rogw/tranp/bin/transpile.py'), 'steps': steps}, f)
	try:
		return subprocess.run([PY, '-X', 'utf8', '-m', 'vf.mon.multi_run', plan], cwd=root, env=env, capture_output=True, text=True, timeout=timeout, errors='replace')
	finally:
		os.remove(plan)


def read_outputs(root: str, outdir: str = 'out') -> dict[str, str]:
	out = {}
	base = os.path.join(root, outdir)
	for d, _, files in os.walk(base):
		for fn in files:
			p = os.path.join(d, fn)
			with open(p, 'rb') as f:
				out[os.path.relpath(p, base)] = f.read().decode('utf-8', 'replace')
	return out


def stat_outputs(root: str, outdir: str = 'out') -> dict[str, tuple[int, int]]:
	out = {}
	base = os.path.join(root, outdir)
	for d, _, files in os.walk(base):
		for fn in files:
			p = os.path.join(d, fn)
			st = os.stat(p)
			out[os.path.relpath(p, base)] = (st.st_mtime_ns, st.st_ino)
	return out


def cache_files(root: str) -> list[str]:
	base = os.path.join(root, '.cache')
	out = []
	for d, _, files in os.walk(base):
		for fn in files:
			out.append(os.path.relpath(os.path.join(d, fn), root))
	return sorted(out)


def failed(p: subprocess.CompletedProcess) -> bool:
	"""The CLI prints ErrorRender output and exits 0 on errors: detect by the rendered stack trace."""
	return p.returncode != 0 or 'Stacktrace:' in p.stdout or 'Traceback (most recent call last)' in p.stderr


def md5(text: str) -> str:
	return hashlib.md5(text.encode('utf-8')).hexdigest()


def rmtree(path: str) -> None:
	shutil.rmtree(path, ignore_errors=True)
