"""Neutral tree language for C02 and the two mappings into it: from tranp's typed node tree (through the nodes' own declared
properties) and from CPython's ast.

expr:  ('name', id) | ('const', repr) | ('bin', op, l, r) | ('unary', op, e) | ('not', e) | ('bool', op, [e..]) | ('cmp', first, [(op, e)..])
     | ('ternary', test, body, orelse) | ('lambda', [names], body) | ('attr', e, name) | ('call', f, [pos | ('star', e)..], [(kw | None, e)..])
     | ('index', e, [keys]) | ('slice', e, [lo, hi, step])  (None for holes) | ('list', [e | ('star', e)..]) | ('tuple', [..]) | ('dict', [(k, v) | ('dstar', e)..])
     | ('listcomp', elt, [([names], iter)..], cond | None) | ('dictcomp', k, v, fors, cond | None) | ('star', e)
target: expr or ('decl', expr) for a binding occurrence
type:  ('tname', id) | ('tattr', t, name) | ('tsub', t, [t..]) | ('tunion', [t..]) | ('tnone',) | ('tlist', [t..]) | ('tellipsis',)
stmt:  ('expr', e) | ('assign', [[target..]..], value) | ('annassign', target, type, value | None) | ('augassign', target, op, value)
     | ('return', e | None) | ('raise', e, cause | None) | ('pass',) | ('break',) | ('continue',) | ('del', [e..]) | ('yield', e) | ('assert', e, msg | None)
     | ('import', module, [(name, asname | None)..]) | ('if', test, body, orelse) | ('while', test, body) | ('for', [names], iter, body)
     | ('try', body, [(type, name | None, body)..]) | ('with', [(e, name | None)..], body)
     | ('def', kind | None, name, [(path, call-args | None)..], [(pname, type | None, default | None, packing)..], rtype, body) | ('class', name, decorators, [bases], body)
"""
from __future__ import annotations

import ast


class Unmapped(Exception):
	pass


# ---------------------------------------------------------------------------- CPython side

BIN = {ast.Add: '+', ast.Sub: '-', ast.Mult: '*', ast.Div: '/', ast.Mod: '%', ast.BitOr: '|', ast.BitXor: '^', ast.BitAnd: '&', ast.LShift: '<<', ast.RShift: '>>'}
CMP = {ast.Lt: '<', ast.Gt: '>', ast.Eq: '==', ast.LtE: '<=', ast.GtE: '>=', ast.NotEq: '!=', ast.In: 'in', ast.NotIn: 'not in', ast.Is: 'is', ast.IsNot: 'is not'}
UNARY = {ast.USub: '-', ast.UAdd: '+', ast.Invert: '~'}
AUG = {**{k: v + '=' for k, v in BIN.items()}, ast.Pow: '**=', ast.FloorDiv: '//=', ast.MatMult: '@='}


def const_repr(v) -> str:
	if v is Ellipsis:
		return '...'
	return repr(v)


class Py:
	def __init__(self) -> None:
		self.stack: list[str] = []  # 'module' | 'class' | 'def:<name>' | 'flow'

	def expr(self, n):
		if n is None:
			return None
		if isinstance(n, ast.Name):
			return ('name', n.id)
		if isinstance(n, ast.Constant):
			return ('const', const_repr(n.value))
		if isinstance(n, ast.BinOp) and type(n.op) in BIN:
			return ('bin', BIN[type(n.op)], self.expr(n.left), self.expr(n.right))
		if isinstance(n, ast.UnaryOp):
			if isinstance(n.op, ast.Not):
				return ('not', self.expr(n.operand))
			return ('unary', UNARY[type(n.op)], self.expr(n.operand))
		if isinstance(n, ast.BoolOp):
			return ('bool', 'and' if isinstance(n.op, ast.And) else 'or', [self.expr(v) for v in n.values])
		if isinstance(n, ast.Compare):
			return ('cmp', self.expr(n.left), [(CMP[type(o)], self.expr(c)) for o, c in zip(n.ops, n.comparators)])
		if isinstance(n, ast.IfExp):
			return ('ternary', self.expr(n.test), self.expr(n.body), self.expr(n.orelse))
		if isinstance(n, ast.Lambda):
			a = n.args
			if a.vararg or a.kwarg or a.kwonlyargs or a.defaults or a.posonlyargs:
				raise Unmapped('lambda signature')
			return ('lambda', [x.arg for x in a.args], self.expr(n.body))
		if isinstance(n, ast.Attribute):
			return ('attr', self.expr(n.value), n.attr)
		if isinstance(n, ast.Call):
			pos = [('star', self.expr(a.value)) if isinstance(a, ast.Starred) else self.expr(a) for a in n.args]
			return ('call', self.expr(n.func), pos, [(k.arg, self.expr(k.value)) for k in n.keywords])
		if isinstance(n, ast.Subscript):
			s = n.slice
			if isinstance(s, ast.Slice):
				return ('slice', self.expr(n.value), [self.expr(s.lower), self.expr(s.upper), self.expr(s.step)])
			if isinstance(s, ast.Tuple) and not getattr(s, '_vf_paren', False):
				return ('index', self.expr(n.value), [self.expr(e) for e in s.elts])
			return ('index', self.expr(n.value), [self.expr(s)])
		if isinstance(n, ast.Starred):
			return ('star', self.expr(n.value))
		if isinstance(n, ast.List):
			return ('list', [self.expr(e) for e in n.elts])
		if isinstance(n, ast.Tuple):
			return ('tuple', [self.expr(e) for e in n.elts])
		if isinstance(n, ast.Dict):
			return ('dict', [('dstar', self.expr(v)) if k is None else (self.expr(k), self.expr(v)) for k, v in zip(n.keys, n.values)])
		if isinstance(n, (ast.ListComp, ast.DictComp)):
			fors = []
			cond = None
			for i, g in enumerate(n.generators):
				if g.is_async:
					raise Unmapped('async comprehension')
				t = g.target
				names = [t.id] if isinstance(t, ast.Name) else [e.id for e in t.elts]
				fors.append((names, self.expr(g.iter)))
				if g.ifs:
					if i != len(n.generators) - 1 or len(g.ifs) != 1:
						raise Unmapped('comprehension condition position')
					cond = self.expr(g.ifs[0])
			if isinstance(n, ast.ListComp):
				return ('listcomp', self.expr(n.elt), fors, cond)
			return ('dictcomp', self.expr(n.key), self.expr(n.value), fors, cond)
		raise Unmapped('python expr ' + type(n).__name__)

	def type(self, n):
		if n is None:
			return None
		if isinstance(n, ast.Name):
			return ('tname', n.id)
		if isinstance(n, ast.Attribute):
			return ('tattr', self.type(n.value), n.attr)
		if isinstance(n, ast.Constant):
			if n.value is None:
				return ('tnone',)
			if n.value is Ellipsis:
				return ('tellipsis',)
			if isinstance(n.value, str):
				return self.type(ast.parse(n.value, mode='eval').body)
			raise Unmapped('type constant')
		if isinstance(n, ast.Subscript):
			s = n.slice
			args = [self.type(e) for e in s.elts] if isinstance(s, ast.Tuple) else [self.type(s)]
			return ('tsub', self.type(n.value), args)
		if isinstance(n, ast.BinOp) and isinstance(n.op, ast.BitOr):
			def flat(x):
				return flat(x.left) + flat(x.right) if isinstance(x, ast.BinOp) and isinstance(x.op, ast.BitOr) else [self.type(x)]
			return ('tunion', flat(n))
		if isinstance(n, ast.List):
			return ('tlist', [self.type(e) for e in n.elts])
		raise Unmapped('python type ' + type(n).__name__)

	def target(self, n, binding: bool):
		"""binding: the statement kind binds names (assign / annassign / for / with / except); augmented assignment does not"""
		if isinstance(n, ast.Name):
			return ('decl', ('name', n.id)) if binding else ('name', n.id)
		if isinstance(n, ast.Attribute) and binding and isinstance(n.value, ast.Name) and n.value.id == 'self' and self.in_init_top():
			return ('decl', self.expr(n))
		if isinstance(n, ast.Starred):
			raise Unmapped('starred assignment target')
		return self.expr(n)

	def in_init_top(self) -> bool:
		if not self.stack or self.stack[-1] != 'def:__init__':
			return False
		below = [c for c in self.stack[:-1] if c != 'flow']  # a constructor below if/try/... in the class body is a constructor all the same
		return bool(below) and below[-1] == 'class'

	def decorators(self, lst) -> list:
		out = []
		for d in lst:
			if isinstance(d, ast.Call):
				call = self.expr(d)
				# "@d()" and "@d" are the same decorator to the node model (path + arguments)
				out.append((self.dotted(d.func), (call[2], call[3]) if call[2] or call[3] else None))
			else:
				out.append((self.dotted(d), None))
		return out

	def dotted(self, n) -> str:
		if isinstance(n, ast.Name):
			return n.id
		if isinstance(n, ast.Attribute):
			return self.dotted(n.value) + '.' + n.attr
		raise Unmapped('decorator path')

	def body(self, stmts, ctx: str) -> list:
		self.stack.append(ctx)
		try:
			return [self.stmt(s) for s in stmts]
		finally:
			self.stack.pop()

	def flow_body(self, stmts) -> list:
		return self.body(stmts, 'flow')

	def func_kind(self, n: ast.FunctionDef) -> str | None:
		encl = [c for c in self.stack if c != 'flow']
		direct = self.stack[-1] if self.stack else 'module'
		first_deco = self.dotted(n.decorator_list[0]) if n.decorator_list and isinstance(n.decorator_list[0], (ast.Name, ast.Attribute)) else (self.dotted(n.decorator_list[0].func) if n.decorator_list and isinstance(n.decorator_list[0], ast.Call) else None)
		# a def below if/try/with/for/while in a class body is bound as a class attribute exactly like one directly in the body
		in_class_directly = direct == 'class' or (direct == 'flow' and bool(encl) and encl[-1] == 'class')
		in_def = any(c.startswith('def:') for c in encl)
		if in_class_directly:
			if first_deco == 'classmethod':
				return 'ClassMethod'
			if n.name == '__init__':
				return 'Constructor'
			if n.args.args and n.args.args[0].arg == 'self':
				return 'Method'
			if direct == 'flow':
				return None  # a def without self below control flow in a class body: the node model has no class for it, not judged
			return 'Function'
		if first_deco == 'classmethod' or n.name == '__init__' or (n.args.args and n.args.args[0].arg in ('self', 'cls')):
			return None  # method-looking definitions outside a class body: python has no such notion, not judged
		return 'Closure' if in_def else 'Function'

	def stmt(self, n):
		if isinstance(n, ast.Expr):
			if isinstance(n.value, ast.Yield):
				if n.value.value is None:
					raise Unmapped('bare yield')
				return ('yield', self.expr(n.value.value))
			return ('expr', self.expr(n.value))
		if isinstance(n, ast.Assign):
			groups = []
			for t in n.targets:
				if isinstance(t, (ast.Tuple, ast.List)):
					groups.append([self.target(e, True) for e in t.elts])
				else:
					groups.append([self.target(t, True)])
			return ('assign', groups, self.expr(n.value))
		if isinstance(n, ast.AnnAssign):
			anno = n.annotation.value if isinstance(n.annotation, ast.Subscript) else n.annotation
			if isinstance(anno, ast.Name) and anno.id in ('ClassVar', 'TypeAlias', 'Annotated'):
				raise Unmapped('tranp-specific annotation form')
			return ('annassign', self.target(n.target, True), self.type(n.annotation), self.expr(n.value))
		if isinstance(n, ast.AugAssign):
			return ('augassign', self.target(n.target, False), AUG[type(n.op)], self.expr(n.value))
		if isinstance(n, ast.Return):
			return ('return', self.expr(n.value))
		if isinstance(n, ast.Raise):
			return ('raise', self.expr(n.exc), self.expr(n.cause))
		if isinstance(n, ast.Pass):
			return ('pass',)
		if isinstance(n, ast.Break):
			return ('break',)
		if isinstance(n, ast.Continue):
			return ('continue',)
		if isinstance(n, ast.Delete):
			return ('del', [self.expr(t) for t in n.targets])
		if isinstance(n, ast.Assert):
			return ('assert', self.expr(n.test), self.expr(n.msg))
		if isinstance(n, ast.ImportFrom):
			if n.level:
				raise Unmapped('relative import')
			return ('import', n.module, [(a.name, a.asname) for a in n.names])
		if isinstance(n, ast.If):
			return ('if', self.expr(n.test), self.flow_body(n.body), self.flow_body(n.orelse))
		if isinstance(n, ast.While):
			if n.orelse:
				raise Unmapped('while-else')
			return ('while', self.expr(n.test), self.flow_body(n.body))
		if isinstance(n, ast.For):
			if n.orelse:
				raise Unmapped('for-else')
			t = n.target
			names = [t.id] if isinstance(t, ast.Name) else [e.id for e in t.elts]
			return ('for', names, self.expr(n.iter), self.flow_body(n.body))
		if isinstance(n, ast.Try):
			if n.orelse or n.finalbody:
				raise Unmapped('try-else/finally')
			return ('try', self.flow_body(n.body), [(self.type(h.type), h.name, self.flow_body(h.body)) for h in n.handlers])
		if isinstance(n, ast.With):
			items = []
			for it in n.items:
				v = it.optional_vars
				if v is not None and not isinstance(v, ast.Name):
					raise Unmapped('with target')
				items.append((self.expr(it.context_expr), v.id if v is not None else None))
			return ('with', items, self.flow_body(n.body))
		if isinstance(n, ast.FunctionDef):
			a = n.args
			if a.kwonlyargs or a.posonlyargs:
				raise Unmapped('def signature')
			defaults = [None] * (len(a.args) - len(a.defaults)) + list(a.defaults)
			params = [(p.arg, self.type(p.annotation), self.expr(d), '') for p, d in zip(a.args, defaults)]
			if a.vararg:
				params.append((a.vararg.arg, self.type(a.vararg.annotation), None, '*'))
			if a.kwarg:
				params.append((a.kwarg.arg, self.type(a.kwarg.annotation), None, '**'))
			kind = self.func_kind(n)
			return ('def', kind, n.name, self.decorators(n.decorator_list), params, self.type(n.returns), self.body(n.body, 'def:' + n.name))
		if isinstance(n, ast.ClassDef):
			if n.keywords:
				raise Unmapped('class keywords')
			# Class.inherits documents one exception: Generic[...] is a template marker, not a base of the inheritance chain
			bases = [b for b in n.bases if not (isinstance(b, ast.Subscript) and isinstance(b.value, ast.Name) and b.value.id == 'Generic') and not (isinstance(b, ast.Name) and b.id == 'Generic')]
			return ('class', n.name, self.decorators(n.decorator_list), [self.type(b) for b in bases], self.body(n.body, 'class'))
		raise Unmapped('python stmt ' + type(n).__name__)


def mark_parenthesized_tuples(tree: ast.AST, text: str) -> None:
	"""a[(1, 2)] and a[1, 2] give the same ast; tranp distinguishes them (Tuple key vs two keys). Mark tuples written with their own parentheses."""
	lines = text.split('\n')
	for n in ast.walk(tree):
		if isinstance(n, ast.Subscript) and isinstance(n.slice, ast.Tuple):
			t = n.slice
			seg = ast.get_source_segment(text, t) or ''
			if seg.startswith('(') and _first_paren_closes_at_end(seg):
				t._vf_paren = True  # type: ignore


def _first_paren_closes_at_end(seg: str) -> bool:
	depth = 0
	quote = None
	i = 0
	while i < len(seg):
		c = seg[i]
		if quote:
			if c == '\\':
				i += 2
				continue
			if c == quote:
				quote = None
		elif c in '"\'':
			quote = c
		elif c in '([{':
			depth += 1
		elif c in ')]}':
			depth -= 1
			if depth == 0:
				return i == len(seg) - 1
		i += 1
	return False


def from_python(text: str) -> list:
	tree = ast.parse(text)
	mark_parenthesized_tuples(tree, text)
	py = Py()
	return py.body(tree.body, 'module')


# ---------------------------------------------------------------------------- tranp side

def cls_name(n) -> str:
	return type(n).__name__


class Tr:
	def __init__(self) -> None:
		import rogw.tranp.syntax.node.definition as defs
		self.d = defs

	def is_empty(self, n) -> bool:
		return isinstance(n, self.d.Empty)

	def opt(self, n, fn):
		return None if self.is_empty(n) else fn(n)

	def const(self, n):
		d = self.d
		text = n.tokens
		if isinstance(n, d.Integer):
			return ('const', repr(int(text.replace('_', ''), 0)))
		if isinstance(n, d.Float):
			return ('const', repr(float(text.replace('_', ''))))
		if isinstance(n, d.String):
			return ('const', repr(ast.literal_eval(text)))
		raise Unmapped('literal ' + cls_name(n))

	def chain(self, elements, leaf) -> tuple:
		out = leaf(elements[0])
		i = 1
		while i < len(elements):
			op = elements[i].tokens
			out = ('bin', op, out, leaf(elements[i + 1]))
			i += 2
		return out

	def expr(self, n):
		d = self.d
		if isinstance(n, d.Group):
			return self.expr(n.expression)
		if isinstance(n, (d.Integer, d.Float, d.String)):
			return self.const(n)
		if isinstance(n, d.Truthy):
			return ('const', 'True')
		if isinstance(n, d.Falsy):
			return ('const', 'False')
		if isinstance(n, d.Null):
			return ('const', 'None')
		if isinstance(n, d.Elipsis):
			return ('const', '...')
		if isinstance(n, d.Declable) and not isinstance(n, d.DeclThisVar):
			return ('decl', ('name', n.tokens))
		if isinstance(n, d.DeclThisVar):
			parts = n.tokens.split('.')
			e = ('name', parts[0])
			for p in parts[1:]:
				e = ('attr', e, p)
			return ('decl', e)
		if isinstance(n, d.Relay):
			return ('attr', self.expr(n.receiver), n.prop.tokens)
		if isinstance(n, d.Var):
			return ('name', n.tokens)
		if isinstance(n, d.Indexer):
			keys = n.keys
			if n.sliced:
				return ('slice', self.expr(n.receiver), [self.opt(k, self.expr) for k in keys] + [None] * (3 - len(keys)))
			return ('index', self.expr(n.receiver), [self.expr(k) for k in keys])
		if isinstance(n, d.FuncCall):
			pos, kws = [], []
			for a in n.arguments:
				v = self.expr(a.value)
				if a.unpacking == '*':
					pos.append(('star', v))
				elif a.unpacking == '**':
					kws.append((None, v))
				elif not self.is_empty(a.label):
					kws.append((a.label.tokens, v))
				else:
					pos.append(v)
			return ('call', self.expr(n.calls), pos, kws)
		if isinstance(n, (d.Sum, d.Term, d.ShiftBitwise, d.AndBitwise, d.XorBitwise, d.OrBitwise)):
			return self.chain(n.elements, self.expr)
		if isinstance(n, (d.OrCompare, d.AndCompare)):
			els = n.elements
			ops = {els[i].tokens for i in range(1, len(els), 2)}
			want = 'or' if isinstance(n, d.OrCompare) else 'and'
			if ops != {want}:
				raise Unmapped(f'boolean chain operators {ops}')
			return ('bool', want, [self.expr(els[i]) for i in range(0, len(els), 2)])
		if isinstance(n, d.Comparison):
			els = n.elements
			return ('cmp', self.expr(els[0]), [(els[i].tokens.replace('.', ' '), self.expr(els[i + 1])) for i in range(1, len(els), 2)])
		if isinstance(n, d.NotCompare):
			return ('not', self.expr(n.value))
		if isinstance(n, d.Factor):
			return ('unary', n.operator.tokens, self.expr(n.value))
		if isinstance(n, d.TernaryOperator):
			return ('ternary', self.expr(n.condition), self.expr(n.primary), self.expr(n.secondary))
		if isinstance(n, d.Lambda):
			return ('lambda', [s.tokens for s in n.symbols], self.expr(n.expression))
		if isinstance(n, d.Spread):
			return ('star', self.expr(n.expression))
		if isinstance(n, d.List):
			return ('list', [self.expr(v) for v in n.values])
		if isinstance(n, d.Tuple):
			return ('tuple', [self.expr(v) for v in n.values])
		if isinstance(n, d.Dict):
			items = []
			for it in n.items:
				if isinstance(it, d.Pair):
					items.append((self.expr(it.first), self.expr(it.second)))
				else:
					items.append(('dstar', self.expr(it)))
			return ('dict', items)
		if isinstance(n, (d.ListComp, d.DictComp)):
			fors = [([s.tokens for s in f.symbols], self.expr(f.iterates)) for f in n.fors]
			cond = self.opt(n.condition, self.expr)
			if isinstance(n, d.ListComp):
				return ('listcomp', self.expr(n.projection), fors, cond)
			p = n.projection
			return ('dictcomp', self.expr(p.first), self.expr(p.second), fors, cond)
		raise Unmapped('tranp expr ' + cls_name(n) + ' tag=' + n.tag)

	def strip_decl(self, e):
		return e[1] if isinstance(e, tuple) and e and e[0] == 'decl' else e

	def value(self, n):
		"""An expression in value position: binding markers cannot occur here."""
		return self.expr(n)

	def type(self, n):
		d = self.d
		if self.is_empty(n):
			return None
		if isinstance(n, d.NullType):
			return ('tnone',)
		if isinstance(n, d.UnionType):
			return ('tunion', [self.type(t) for t in n.or_types])
		if isinstance(n, d.CallableType):
			return ('tsub', self.type(n.type_name), [self.type(n._children('typed_slices')[0]), self.type(n.return_type)])
		if isinstance(n, d.GenericType):
			return ('tsub', self.type(n.type_name), [self.type(t) for t in n.sub_types])
		if isinstance(n, d.RelayOfType):
			return ('tattr', self.type(n.receiver), n.prop.tokens)
		if isinstance(n, d.LiteralType):
			raise Unmapped('Literal[] type')
		if isinstance(n, d.VarOfType):
			return ('tname', n.tokens)
		if isinstance(n, d.TypeParameters):
			return ('tlist', [self.type(t) for t in n.type_params]) if n.tag == 'typed_list' else ('tellipsis',)
		raise Unmapped('tranp type ' + cls_name(n) + ' tag=' + n.tag)

	def decorators(self, lst) -> list:
		out = []
		for deco in lst:
			path = deco.path.tokens
			has_call = deco._exists('arguments') or self._decorator_called(deco)
			if has_call:
				pos, kws = [], []
				for a in deco.arguments:
					v = self.expr(a.value)
					if a.unpacking == '*':
						pos.append(('star', v))
					elif a.unpacking == '**':
						kws.append((None, v))
					elif not self.is_empty(a.label):
						kws.append((a.label.tokens, v))
					else:
						pos.append(v)
				out.append((path, (pos, kws)))
			else:
				out.append((path, None))
		return out

	def _decorator_called(self, deco) -> bool:
		# "@d()" and "@d" differ in python; the grammar keeps an empty slot for "()" without arguments
		return False

	def block(self, stmts) -> list:
		d = self.d
		return [self.stmt(s) for s in stmts if not isinstance(s, d.Comment)]

	def stmt(self, n):
		d = self.d
		if isinstance(n, d.MoveAssign):
			return ('assign', [[self.expr(r) for r in n.receivers]], self.expr(n.value))
		if isinstance(n, d.AnnoAssign):
			return ('annassign', self.expr(n.receiver), self.type(n.var_type), self.opt(n.value, self.expr))
		if isinstance(n, d.AugAssign):
			return ('augassign', self.expr(n.receiver), n.operator.tokens, self.expr(n.value))
		if isinstance(n, d.Return):
			return ('return', self.opt(n.return_value, self.expr))
		if isinstance(n, d.Throw):
			return ('raise', self.expr(n.throws), self.opt(n.via, self.expr))
		if isinstance(n, d.Pass):
			return ('pass',)
		if isinstance(n, d.Continue):
			return ('continue',)
		if isinstance(n, d.Break):
			return ('break',)
		if isinstance(n, d.Delete):
			return ('del', [self.expr(t) for t in n.targets])
		if isinstance(n, d.Yield):
			return ('yield', self.expr(n.yield_value))
		if isinstance(n, d.Assert):
			return ('assert', self.expr(n.condition), self.opt(n.assert_body, self.expr))
		if isinstance(n, d.Import):
			names = []
			for s in n.symbols:
				names.append((s.entity_symbol.tokens, s.alias.tokens if isinstance(s.alias, d.ImportName) else None))
			return ('import', n.import_path.tokens, names)
		if isinstance(n, d.If):
			orelse = self.opt(n.else_clause, lambda e: self.block(e.statements)) or []
			for ei in reversed(n.else_ifs):
				orelse = [('if', self.expr(ei.condition), self.block(ei.statements), orelse)]
			return ('if', self.expr(n.condition), self.block(n.statements), orelse)
		if isinstance(n, d.While):
			return ('while', self.expr(n.condition), self.block(n.statements))
		if isinstance(n, d.For):
			return ('for', [s.tokens for s in n.symbols], self.expr(n.iterates), self.block(n.statements))
		if isinstance(n, d.Try):
			return ('try', self.block(n.statements), [(self.type(c.var_type), c.symbol.tokens if c._exists('name') else None, self.block(c.statements)) for c in n.catches])
		if isinstance(n, d.With):
			return ('with', [(self.expr(e.enter), None if self.is_empty(e.symbol) else e.symbol.tokens) for e in n.entries], self.block(n.statements))
		if isinstance(n, d.Function):
			params = [(p.symbol.tokens, self.type(p.var_type), self.opt(p.default_value, self.expr), p.packing) for p in n.parameters]
			body = list(n._org_statements)
			return ('def', cls_name(n), n._by('function_def_raw.name').tokens, self.decorators(n.decorators), params, self.type(n.return_type), self.block(body))
		if isinstance(n, d.Class):
			return ('class', n._by('class_def_raw.name').tokens, self.decorators(n.decorators), [self.type(t) for t in n.inherits], self.block(list(n._org_statements)))
		if isinstance(n, (d.AltClass, d.TemplateClass)):
			raise Unmapped('tranp-only class form')
		return ('expr', self.expr(n))


def from_nodes(entrypoint) -> list:
	t = Tr()
	return t.block(entrypoint.statements)


def normalize(form):
	"""Things that are spelled differently without being structure: python has no separate marker for `def` kind None (wildcard)."""
	return form


def first_diff(a, b, path: str = '') -> str | None:
	# a: tranp, b: python; a `None` kind on the python side of a def is a wildcard
	if isinstance(a, tuple) and isinstance(b, tuple) and a and b and a[0] == 'def' and b[0] == 'def' and b[1] is None:
		b = (b[0], a[1]) + tuple(b[2:])
	if type(a) is not type(b):
		return f'{path}: {str(a)[:160]} vs {str(b)[:160]}'
	if isinstance(a, (list, tuple)):
		if len(a) != len(b):
			return f'{path}: length {len(a)} vs {len(b)}: {str(a)[:200]} vs {str(b)[:200]}'
		head = a[0] if isinstance(a, tuple) and a and isinstance(a[0], str) else ''
		for i, (x, y) in enumerate(zip(a, b)):
			d = first_diff(x, y, f'{path}/{head}[{i}]')
			if d:
				return d
		return None
	return None if a == b else f'{path}: {a!r} vs {b!r}'
