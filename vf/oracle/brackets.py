"""Independent bracket/quote scanner (oracle for C18). Shares no code with tranp."""
from __future__ import annotations

OPEN = {'(': ')', '[': ']', '{': '}', '<': '>'}
CLOSE = {v: k for k, v in OPEN.items()}


def scan(text: str) -> list[tuple[int, str | None]] | None:
	"""For every index: (bracket depth before consuming the char, active quote or None).

	Returns None when the text is not balanced (bracket mismatch, negative depth, open quote).
	The state recorded at index i is the state *at* that char: a quote char itself is 'in quote',
	a bracket char itself is counted as inside its own group.
	"""
	out: list[tuple[int, str | None]] = []
	stack: list[str] = []
	quote: str | None = None
	i = 0
	n = len(text)
	while i < n:
		c = text[i]
		if quote is not None:
			out.append((len(stack), quote))
			if c == '\\' and i + 1 < n:
				out.append((len(stack), quote))
				i += 2
				continue
			if c == quote:
				quote = None
			i += 1
			continue
		if c in '"\'':
			quote = c
			out.append((len(stack), c))
		elif c in OPEN:
			stack.append(OPEN[c])
			out.append((len(stack), None))
		elif c in CLOSE:
			if not stack or stack[-1] != c:
				return None
			out.append((len(stack), None))
			stack.pop()
		else:
			out.append((len(stack), None))
		i += 1
	if stack or quote is not None:
		return None
	return out


def balanced(text: str) -> bool:
	return scan(text) is not None


def top_level_positions(text: str, delim: str) -> list[int]:
	st = scan(text)
	assert st is not None
	res = []
	i = 0
	while i < len(text):
		if text.startswith(delim, i) and st[i] == (0, None):
			res.append(i)
			i += len(delim)
		else:
			i += 1
	return res


def split_top(text: str, delim: str, skip_trailing: bool = True) -> list[str]:
	"""Split at every top-level delimiter (optionally not at one that ends the text)."""
	pos = top_level_positions(text, delim)
	if skip_trailing:
		pos = [p for p in pos if p + len(delim) < len(text)]
	pieces = []
	b = 0
	for p in pos:
		pieces.append(text[b:p])
		b = p + len(delim)
	pieces.append(text[b:])
	return pieces


def squeeze(text: str, keep_single_space: bool) -> str:
	"""Remove blanks outside quotes (or collapse runs to one and strip the ends)."""
	out = []
	quote = None
	i = 0
	while i < len(text):
		c = text[i]
		if quote:
			out.append(c)
			if c == '\\' and i + 1 < len(text):
				out.append(text[i + 1])
				i += 2
				continue
			if c == quote:
				quote = None
		elif c in '"\'':
			quote = c
			out.append(c)
		elif c == ' ':
			if keep_single_space and out and out[-1] != ' ':
				out.append(' ')
		else:
			out.append(c)
		i += 1
	s = ''.join(out)
	return s.strip(' ') if keep_single_space else s


def groups(text: str, kind: str) -> list[tuple[int, int, int]]:
	"""All groups of the bracket kind outside quotes and outside groups of *other* kinds:
	(open index, close index, nesting depth among same-kind groups), in document order."""
	res = []
	stack: list[tuple[str, int]] = []
	quote = None
	i = 0
	while i < len(text):
		c = text[i]
		if quote:
			if c == '\\':
				i += 2
				continue
			if c == quote:
				quote = None
		elif c in '"\'':
			quote = c
		elif c in OPEN:
			stack.append((c, i))
		elif c in CLOSE:
			o, at = stack.pop()
			if o == kind[0] and all(k == kind[0] for k, _ in stack):
				res.append((at, i, len(stack)))
		i += 1
	return sorted(res)
