"""Neutral tree language for C11 and the two mappings into it: from CPython's ast and from the tuple trees of tranp's
self-hosted parsing engine (SyntaxParser(py_rules()).parse(..).simplify()).

expr:  ('name', id) | ('const', repr) | ('bin', op, l, r) | ('neg', e) | ('not', e) | ('bool', op, [e..]) | ('cmp', first, [(op, e)..])
     | ('ternary', test, body, orelse) | ('walrus', name, value) | ('lambda', [names], body) | ('attr', e, name)
     | ('call', f, [pos | ('star', e)..], [(kw | None, e)..]) | ('index', e, i) | ('slice', e, [parts]) | ('list', [..]) | ('tuple', [..]) | ('dict', [(k, v)..])
stmt:  ('expr', e) | ('assign', target, value) | ('return', e | None) | ('raise', e) | ('break',) | ('continue',)
     | ('if', test, body, orelse) | ('for', [names], iter, body) | ('while', test, body) | ('def', name, [(p, type, default | None)..], rtype, body)
"""
from __future__ import annotations

import ast


class Unsupported(Exception):
	pass


BIN = {ast.Add: '+', ast.Sub: '-', ast.Mult: '*', ast.Div: '/', ast.Mod: '%'}
CMP = {ast.Lt: '<', ast.Gt: '>', ast.Eq: '==', ast.LtE: '<=', ast.GtE: '>=', ast.NotEq: '!=', ast.In: 'in', ast.NotIn: 'not in', ast.Is: 'is', ast.IsNot: 'is not'}


def py_expr(n: ast.AST):
	if isinstance(n, ast.Name):
		return ('name', n.id)
	if isinstance(n, ast.Constant):
		if n.value is Ellipsis:
			return ('const', '...')
		return ('const', repr(n.value))
	if isinstance(n, ast.BinOp) and type(n.op) in BIN:
		return ('bin', BIN[type(n.op)], py_expr(n.left), py_expr(n.right))
	if isinstance(n, ast.UnaryOp) and isinstance(n.op, ast.USub):
		return ('neg', py_expr(n.operand))
	if isinstance(n, ast.UnaryOp) and isinstance(n.op, ast.Not):
		return ('not', py_expr(n.operand))
	if isinstance(n, ast.BoolOp):
		return ('bool', 'and' if isinstance(n.op, ast.And) else 'or', [py_expr(v) for v in n.values])
	if isinstance(n, ast.Compare):
		return ('cmp', py_expr(n.left), [(CMP[type(o)], py_expr(c)) for o, c in zip(n.ops, n.comparators)])
	if isinstance(n, ast.IfExp):
		return ('ternary', py_expr(n.test), py_expr(n.body), py_expr(n.orelse))
	if isinstance(n, ast.NamedExpr):
		return ('walrus', n.target.id, py_expr(n.value))
	if isinstance(n, ast.Lambda):
		a = n.args
		if a.vararg or a.kwarg or a.kwonlyargs or a.defaults or a.posonlyargs:
			raise Unsupported('lambda signature')
		return ('lambda', [x.arg for x in a.args], py_expr(n.body))
	if isinstance(n, ast.Attribute):
		return ('attr', py_expr(n.value), n.attr)
	if isinstance(n, ast.Call):
		pos = [('star', py_expr(a.value)) if isinstance(a, ast.Starred) else py_expr(a) for a in n.args]
		kws = [(k.arg, py_expr(k.value)) for k in n.keywords]
		return ('call', py_expr(n.func), pos, kws)
	if isinstance(n, ast.Subscript):
		s = n.slice
		if isinstance(s, ast.Slice):
			parts = [s.lower, s.upper] + ([s.step] if s.step is not None else [])
			if any(p is None for p in parts):
				raise Unsupported('slice with holes')
			return ('slice', py_expr(n.value), [py_expr(p) for p in parts])
		return ('index', py_expr(n.value), py_expr(s))
	if isinstance(n, ast.List):
		return ('list', [py_expr(e) for e in n.elts])
	if isinstance(n, ast.Tuple):
		return ('tuple', [py_expr(e) for e in n.elts])
	if isinstance(n, ast.Dict):
		return ('dict', [(py_expr(k), py_expr(v)) for k, v in zip(n.keys, n.values)])
	raise Unsupported(type(n).__name__)


def py_stmt(n: ast.AST):
	if isinstance(n, ast.Expr):
		return ('expr', py_expr(n.value))
	if isinstance(n, ast.Assign):
		if len(n.targets) != 1:
			raise Unsupported('chained assignment')
		return ('assign', py_expr(n.targets[0]), py_expr(n.value))
	if isinstance(n, ast.Return):
		return ('return', py_expr(n.value) if n.value is not None else None)
	if isinstance(n, ast.Raise):
		if n.cause is not None or n.exc is None:
			raise Unsupported('raise form')
		return ('raise', py_expr(n.exc))
	if isinstance(n, ast.Break):
		return ('break',)
	if isinstance(n, ast.Continue):
		return ('continue',)
	if isinstance(n, ast.If):
		return ('if', py_expr(n.test), [py_stmt(s) for s in n.body], [py_stmt(s) for s in n.orelse])
	if isinstance(n, ast.For):
		if n.orelse:
			raise Unsupported('for-else')
		t = n.target
		if isinstance(t, ast.Name):
			names = [t.id]
		elif isinstance(t, (ast.Tuple, ast.List)) and all(isinstance(e, ast.Name) for e in t.elts):
			names = [e.id for e in t.elts]
		else:
			# `for a.b in ...`, `for a[0] in ...`, nested targets: valid Python that the grammar under test does not derive
			raise Unsupported('for target other than names')
		return ('for', names, py_expr(n.iter), [py_stmt(s) for s in n.body])
	if isinstance(n, ast.While):
		if n.orelse:
			raise Unsupported('while-else')
		return ('while', py_expr(n.test), [py_stmt(s) for s in n.body])
	if isinstance(n, ast.FunctionDef):
		a = n.args
		if a.vararg or a.kwarg or a.kwonlyargs or a.posonlyargs or n.decorator_list:
			raise Unsupported('def form')
		defaults = [None] * (len(a.args) - len(a.defaults)) + list(a.defaults)
		params = [(p.arg, py_expr(p.annotation) if p.annotation is not None else None, py_expr(dv) if dv is not None else None) for p, dv in zip(a.args, defaults)]
		return ('def', n.name, params, py_expr(n.returns) if n.returns is not None else None, [py_stmt(s) for s in n.body])
	raise Unsupported(type(n).__name__)


def from_python(text: str):
	return [py_stmt(s) for s in ast.parse(text).body]


# ---------------------------------------------------------------------------- engine side

def is_tok(e) -> bool:
	return isinstance(e[1], str)


def left_nest(children: list, leaf):
	out = leaf(children[0])
	i = 1
	while i < len(children):
		op = children[i]
		out = ('bin', op[1], out, leaf(children[i + 1]))
		i += 2
	return out


def comp_op(e) -> str:
	# ('op_comp', [('op_comp_s', '<')]) | [op_not, op_in] | [op_is, op_not] | [op_in] | [op_is]
	return ' '.join(c[1] for c in e[1])


def const_of(tok) -> tuple:
	name, value = tok
	if name == 'digit':
		return ('const', repr(int(value)))
	if name == 'decimal':
		return ('const', repr(float(value)))
	if name == 'string':
		return ('const', repr(ast.literal_eval(value)))
	if name == 'boolean':
		return ('const', value)
	if name == 'none':
		return ('const', 'None')
	if name == 'pass':
		return ('const', '...')
	raise Unsupported('token ' + name)


def call_args(parts: list) -> tuple[list, list]:
	pos, kws = [], []
	i = 0
	while i < len(parts):
		p = parts[i]
		if is_tok(p) and p[0] == 'name':
			kws.append((p[1], en_expr(parts[i + 1])))
			i += 2
		elif is_tok(p) and p[0] == 'packing':
			if p[1] == '*':
				pos.append(('star', en_expr(parts[i + 1])))
			else:
				kws.append((None, en_expr(parts[i + 1])))
			i += 2
		else:
			pos.append(en_expr(p))
			i += 1
	return pos, kws


def en_expr(e):
	name = e[0]
	if is_tok(e):
		if name == '__empty__':
			raise Unsupported('empty expression')
		return const_of(e)
	ch = e[1]
	if name == 'var':
		return ('name', ch[0][1])
	if name in ('calc_sum', 'calc_mul'):
		return left_nest(ch, en_expr)
	if name == 'unary':
		return ('neg', en_expr(ch[1]))
	if name == 'comp':
		return ('cmp', en_expr(ch[0]), [(comp_op(ch[i]), en_expr(ch[i + 1])) for i in range(1, len(ch), 2)])
	if name == 'comp_not':
		return ('not', en_expr(ch[1]))
	if name in ('comp_and', 'comp_or'):
		return ('bool', 'and' if name == 'comp_and' else 'or', [en_expr(ch[i]) for i in range(0, len(ch), 2)])
	if name == 'ternary':
		return ('ternary', en_expr(ch[1]), en_expr(ch[0]), en_expr(ch[2]))
	if name == 'expr_move':
		t = en_expr(ch[0])
		if t[0] != 'name':
			raise Unsupported('walrus target')
		return ('walrus', t[1], en_expr(ch[1]))
	if name == 'lambda':
		return ('lambda', [c[1] for c in ch[:-1] if is_tok(c) and c[0] == 'name'], en_expr(ch[-1]))
	if name == 'relay':
		return ('attr', en_expr(ch[0]), ch[1][1])
	if name == 'invoke':
		parts = [c for c in ch[1:] if not (is_tok(c) and c[0] == '__empty__')]
		pos, kws = call_args(parts)
		return ('call', en_expr(ch[0]), pos, kws)
	if name == 'indexer':
		parts = [en_expr(c) for c in ch[1:]]
		return ('index', en_expr(ch[0]), parts[0]) if len(parts) == 1 else ('slice', en_expr(ch[0]), parts)
	if name in ('list', 'tuple'):
		return (name, [en_expr(c) for c in ch if not (is_tok(c) and c[0] == '__empty__')])
	if name == 'dict':
		return ('dict', [(en_expr(kv[1][0]), en_expr(kv[1][1])) for kv in ch if not is_tok(kv)])
	if name in ('type_var',):
		return ('name', ch[0][1])
	if name == 'type_none':
		return ('const', 'None')
	raise Unsupported('tree ' + name)


def en_target(parts: list):
	if len(parts) == 1 and is_tok(parts[0]) and parts[0][0] == 'name':
		return ('name', parts[0][1])
	if len(parts) == 2 and is_tok(parts[1]) and parts[1][0] == 'name':
		return ('attr', en_expr(parts[0]), parts[1][1])
	idx = [en_expr(p) for p in parts[1:]]
	return ('index', en_expr(parts[0]), idx[0]) if len(idx) == 1 else ('slice', en_expr(parts[0]), idx)


def en_block(e) -> list:
	assert e[0] == 'block', e[0]
	return [en_stmt(s) for s in e[1]]


def en_stmt(e):
	name = e[0]
	if is_tok(e):
		if name == 'break':
			return ('break',)
		if name == 'continue':
			return ('continue',)
		if name == 'pass':
			return ('expr', ('const', '...'))
		return ('expr', const_of(e))
	ch = e[1]
	if name == 'move':
		return ('assign', en_target(ch[:-1]), en_expr(ch[-1]))
	if name == 'return':
		return ('return', None if is_tok(ch[0]) and ch[0][0] == '__empty__' else en_expr(ch[0]))
	if name == 'raise':
		return ('raise', en_expr(ch[0]))
	if name == 'if':
		then = ch[0]
		orelse: list = []
		tail = [c for c in ch[1:] if not (is_tok(c) and c[0] == '__empty__')]
		# python nests elif as orelse=[If]
		for c in reversed(tail):
			if c[0] == 'else':
				orelse = en_block(c[1][0])
			else:
				orelse = [('if', en_expr(c[1][0]), en_block(c[1][1]), orelse)]
		return ('if', en_expr(then[1][0]), en_block(then[1][1]), orelse)
	if name == 'for':
		names = [c[1] for c in ch[:-2]]
		return ('for', names, en_expr(ch[-2]), en_block(ch[-1]))
	if name == 'while':
		return ('while', en_expr(ch[0]), en_block(ch[1]))
	if name == 'function':
		fname = ch[0][1]
		params = []
		if not is_tok(ch[1]):
			for p in ch[1][1]:
				pc = p[1]
				params.append((pc[0][1], en_expr(pc[1]), None if is_tok(pc[2]) and pc[2][0] == '__empty__' else en_expr(pc[2])))
		rtype = None if is_tok(ch[2]) and ch[2][0] == '__empty__' else en_expr(ch[2])
		return ('def', fname, params, rtype, en_block(ch[3]))
	return ('expr', en_expr(e))


def from_engine(tree) -> list:
	assert tree[0] == 'entry', tree[0]
	return [en_stmt(s) for s in tree[1]]


def first_diff(a, b, path: str = '') -> str | None:
	if type(a) is not type(b):
		return f'{path}: {str(a)[:120]} vs {str(b)[:120]}'
	if isinstance(a, (list, tuple)):
		if len(a) != len(b):
			return f'{path}: length {len(a)} vs {len(b)}: {str(a)[:160]} vs {str(b)[:160]}'
		for i, (x, y) in enumerate(zip(a, b)):
			d = first_diff(x, y, f'{path}/{a[0] if isinstance(a, tuple) and a and isinstance(a[0], str) else ""}[{i}]')
			if d:
				return d
		return None
	return None if a == b else f'{path}: {a!r} vs {b!r}'
