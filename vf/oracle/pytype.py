"""Run-time type description and the relation static-type ~ run-time value for C03."""
from __future__ import annotations

import enum


def parse_static(text: str):
	"""tranp's short notation  name<arg, ...>  /  f(a, b) -> r   ->  (name, [args]) | ('fn', text)"""
	text = text.strip()
	if ') ->' in text and '(' in text and not text.startswith(('list<', 'dict<', 'tuple<', 'Union<', 'type<', 'Iterator<')):
		return ('fn', text)
	if '<' not in text:
		return (text, [])
	name, rest = text.split('<', 1)
	assert rest.endswith('>'), text
	inner = rest[:-1]
	args, depth, cur = [], 0, ''
	for ch in inner:
		if ch in '<(':
			depth += 1
		elif ch in '>)':
			depth -= 1
		if ch == ',' and depth == 0:
			args.append(cur)
			cur = ''
		else:
			cur += ch
	if cur.strip():
		args.append(cur)
	return (name, [parse_static(a) for a in args])


def snap(v):
	"""Containers are recorded by value (they are mutated later); everything else by reference."""
	if isinstance(v, list):
		return [snap(e) for e in v]
	if isinstance(v, tuple):
		return tuple(snap(e) for e in v)
	if isinstance(v, dict):
		return {k: snap(x) for k, x in v.items()}
	return v


def describe(v) -> str:
	if isinstance(v, bool):
		return 'bool'
	if isinstance(v, int):
		return 'int'
	if isinstance(v, float):
		return 'float'
	if isinstance(v, str):
		return 'str'
	if v is None:
		return 'None'
	if isinstance(v, enum.Enum):
		return 'enum ' + type(v).__name__
	if isinstance(v, list):
		return 'list[' + ', '.join(sorted({describe(e) for e in v})) + ']'
	if isinstance(v, dict):
		return 'dict[' + ', '.join(sorted({describe(k) + ': ' + describe(x) for k, x in v.items()})) + ']'
	if isinstance(v, tuple):
		return 'tuple[' + ', '.join(describe(e) for e in v) + ']'
	if callable(v) and not isinstance(v, type):
		return 'function'
	if isinstance(v, type):
		return 'type ' + v.__name__
	return 'obj ' + type(v).__name__


def matches(static, v, tv: frozenset = frozenset()) -> str | None:
	"""None when the static type denotes the run-time value, else a reason."""
	name, args = static if static[0] != 'fn' else ('fn', [])
	if name in tv:
		return None  # a type parameter inside the generic definition stands for whatever it is instantiated with
	if name == 'Unknown':
		return 'Unknown for a determined value'
	if name == 'Callable':
		return None if callable(v) else f'Callable for {describe(v)}'
	if name == 'fn':
		return None if callable(v) else f'function type for {describe(v)}'
	if name == 'Union':
		reasons = [matches(a, v, tv) for a in args]
		return None if any(r is None for r in reasons) else f'no member of the union fits {describe(v)}'
	if name in ('None', 'Null'):
		return None if v is None else f'None for {describe(v)}'
	if name in ('int', 'float', 'bool', 'str'):
		return None if describe(v) == name else f'{name} for {describe(v)}'
	if name == 'list':
		if not isinstance(v, list):
			return f'list for {describe(v)}'
		for e in v:
			r = matches(args[0], e, tv) if args else 'list without element type'
			if r:
				return 'list element: ' + r
		return None
	if name == 'dict':
		if not isinstance(v, dict):
			return f'dict for {describe(v)}'
		for k, x in v.items():
			r = (matches(args[0], k, tv) or matches(args[1], x, tv)) if len(args) == 2 else 'dict without key/value types'
			if r:
				return 'dict entry: ' + r
		return None
	if name == 'tuple':
		if not isinstance(v, tuple):
			return f'tuple for {describe(v)}'
		if len(args) != len(v):
			return f'tuple of {len(args)} for {describe(v)}'
		for a, e in zip(args, v):
			r = matches(a, e, tv)
			if r:
				return 'tuple element: ' + r
		return None
	if name == 'type':
		return None if isinstance(v, type) else f'type<> for {describe(v)}'
	if name in ('Iterator', 'ItemsView', 'Sequence'):
		return None  # views / iterators: only their consumption is typed
	# user class or enum
	if isinstance(v, super):
		return None if name in [c.__name__ for c in v.__thisclass__.__mro__[1:]] else f'{name} for super() of {v.__thisclass__.__name__}'
	if isinstance(v, enum.Enum):
		return None if type(v).__name__ == name else f'{name} for enum {type(v).__name__}'
	if name in [c.__name__ for c in type(v).__mro__]:
		return None  # an instance of a subclass is an instance of the declared class
	return f'{name} for {describe(v)}'
