"""Reference model of the dependency container (oracle for C19). ~100 lines, no tranp code.

A container is a map origin-symbol -> Binding(factory name, generation) plus at most one instance per bound
symbol; the state of a symbol is the pair (binding, instance-or-none). combine(a, b): per symbol, b's state wins
if b binds the symbol at all (also when b has not instantiated it yet), otherwise a's state is kept. Outcomes are ('ok', value) / ('raise', 'ValueError').
"""
from __future__ import annotations

import itertools

_gen = itertools.count(1)


class Binding:
	def __init__(self, factory: str, lazy: bool) -> None:
		self.factory = factory
		self.gen = next(_gen)
		self.lazy_unmaterialized = lazy


class Expect:
	"""What a produced object must look like: made by `factory`, given `args` (Expect objects, real objects or plain values)."""

	def __init__(self, factory: str, args: list) -> None:
		self.factory = factory
		self.args = args
		self.real = None


class MValueError(Exception):
	pass


class MContainer:
	def __init__(self, kind: str, universe) -> None:
		self.kind = kind
		self.u = universe
		self.bind: dict[str, Binding] = {}
		self.inst: dict[str, Expect] = {}

	def origin(self, sym: str) -> str:
		return self.u.ORIGIN[sym]

	def can_resolve(self, sym: str) -> bool:
		return self.origin(sym) in self.bind

	def do_bind(self, sym: str, factory: str) -> None:
		o = self.origin(sym)
		if o in self.bind:
			raise MValueError('already defined')
		self.bind[o] = Binding(factory, False)

	def do_unbind(self, sym: str) -> None:
		self.bind.pop(self.origin(sym), None)
		self.inst.pop(self.origin(sym), None)

	def do_rebind(self, sym: str, factory: str) -> None:
		self.do_unbind(sym)
		self.do_bind(sym, factory)

	def resolve(self, sym: str) -> Expect:
		o = self.origin(sym)
		if o not in self.bind:
			raise MValueError('unresolved symbol')
		b = self.bind[o]
		b.lazy_unmaterialized = False
		if o not in self.inst:
			self.inst[o] = self.invoke(b.factory, [])
		return self.inst[o]

	def invoke(self, factory: str, rest: list) -> Expect:
		params = self.u.FACTORIES[factory][1]
		curried: list = []
		for p in params:
			if not (isinstance(p, str) and p in self.bind):
				break
			curried.append(self.resolve(p))
		remaining = params[len(curried):]
		if len(remaining) != len(rest):
			raise MValueError('arity mismatch')
		for p, a in zip(remaining, rest):
			want = self.u.SYMBOLS[p] if isinstance(p, str) else p
			if not isinstance(a, want):
				raise MValueError('type mismatch')
		return Expect(factory, curried + list(rest))

	def combine(self, other: 'MContainer') -> 'MContainer':
		c = MContainer(self.kind, self.u)
		c.bind = {**{k: _copy(b) for k, b in self.bind.items()}, **{k: _copy(b) for k, b in other.bind.items()}}
		c.inst = {**{o: e for o, e in self.inst.items() if o not in other.bind}, **other.inst}
		return c


def _copy(b: Binding) -> Binding:
	n = Binding.__new__(Binding)
	n.factory, n.gen, n.lazy_unmaterialized = b.factory, b.gen, b.lazy_unmaterialized
	return n
