"""Regenerates /verif/MANIFEST.json from the table below (run: ./check --manifest … or python -m vf.manifest_gen)."""
import json
import os

ROOT = os.path.dirname(os.path.dirname(os.path.abspath(__file__)))

# id -> (level, technique, text, note, design_ref)
CHECKS: dict[str, tuple[str, str, str, str, str]] = {}
NOT_YET: dict[str, str] = {}


def claim(pid, level, technique, text, note, ref):
	CHECKS[pid] = (level, technique, text, note, ref)


from vf.manifest_table import fill  # noqa: E402

fill(claim, NOT_YET)


def main() -> None:
	props = [json.loads(l)['id'] for l in open(os.path.join(ROOT, 'properties.jsonl'))]
	checks = []
	for pid in props:
		if pid not in CHECKS:
			continue
		level, technique, text, note, ref = CHECKS[pid]
		checks.append({
			'property_id': pid,
			'quick_cmd': f'./check {pid} quick',
			'thorough_cmd': f'./check {pid} thorough',
			'evidence_file': f'evidence/{pid}.json',
			'replay_cmd_template': f'./check {pid} --replay {{path}}',
			'engine': 'vf',
			'level_claimed': {'category': level, 'text': text, 'design_ref': ref},
			'level_note': note,
			'technique': technique,
		})
	na = [{'property_id': pid, 'reason': NOT_YET.get(pid, 'check not built yet in this session (work in progress); not claimed')} for pid in props if pid not in CHECKS]
	doc = {
		'version': 1,
		'setup_cmd': './check --setup',
		'hooks': {
			'guard': 'ROGW_TRANP_VERIF',
			'enable': 'no source hooks are needed: every monitor interposes on the real classes from the harness (./check exports ROGW_TRANP_VERIF=1 for symmetry); see DESIGN.md §2.2',
			'baseline_off_cmd': 'cd /repo && /venv/bin/python -m pytest -ra -q -p no:cacheprovider --timeout=900 --continue-on-collection-errors',
			'source_commits': [],
			'add_only': True,
		},
		'engines': [{
			'name': 'vf',
			'path': 'vf/',
			'serves_properties': [c['property_id'] for c in checks],
			'kind_free_text': 'runtime monitoring: generated/hostile workloads driven through the real tranp code (and the real emitted C++ under ASan/UBSan) with interposed monitors and independent oracles (CPython ast/tokenize/eval/execution, fresh process, cold cache, forced run, reference models)',
		}],
		'checks': checks,
		'not_applicable': na,
		'notes': 'All checks run tranp from /repo\'s working tree under CPython 3.13 (the version the project targets); see DESIGN.md. Exit 0 held / 1 VIOLATION / 2 INCONCLUSIVE (monitor not reached or harness error; never on the unchanged tree).',
	}
	with open(os.path.join(ROOT, 'MANIFEST.json'), 'w') as f:
		json.dump(doc, f, indent=1)
		f.write('\n')


if __name__ == '__main__':
	main()
