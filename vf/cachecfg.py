"""Factories referenced from scratch-project config files through the documented `di:` override (C05)."""
from rogw.tranp.cache.cache import CacheSetting


def cache_off() -> CacheSetting:
	return CacheSetting(basedir='.cache/tranp', enabled=False)


def cache_on() -> CacheSetting:
	return CacheSetting(basedir='.cache/tranp', enabled=True)
