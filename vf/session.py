"""Build a real tranp application (Py2Cpp wiring of bin/transpile.py) over virtual and/or on-disk modules.

Everything is the repository's own code read from /repo's working tree; only three providers are replaced:
the source provider (serves a dict of virtual modules, falls back to the real loader), the module meta factory
(dummy for virtual modules) and the cache setting (run-private directory, never /repo/.cache).
"""


import atexit
import os
import shutil
import tempfile
from typing import Any

from vf.common import REPO

_CACHE_DIR: list[str] = []


def private_cache_dir() -> str:
	"""One cache directory per process, removed at exit (library stubs are parsed once per process)."""
	if not _CACHE_DIR:
		d = tempfile.mkdtemp(prefix='vf-cache-')
		_CACHE_DIR.append(d)
		atexit.register(lambda: shutil.rmtree(d, ignore_errors=True))
	return _CACHE_DIR[0]


class Session:
	def __init__(self, sources: dict[str, str] | None = None, cache_dir: str | None = None, cache_enabled: bool = True,
			extra_definitions: dict[str, Any] | None = None, config: str = 'example/config.yml') -> None:
		assert os.path.realpath(os.getcwd()) == os.path.realpath(REPO), 'sessions run with cwd=/repo'
		from rogw.tranp.app.app import App
		from rogw.tranp.bin.transpile import Args, TranspileApp
		from rogw.tranp.cache.cache import CacheSetting
		from rogw.tranp.data.meta.types import ModuleMetaFactory
		from rogw.tranp.lang.module import to_fullyname
		from rogw.tranp.module.types import ModulePath, ModulePaths
		from rogw.tranp.providers.syntax.ast import source_provider
		from rogw.tranp.syntax.ast.parser import SourceProvider
		from rogw.tranp.lang.locator import Invoker
		from rogw.tranp.lang.annotation import injectable

		self.sources: dict[str, str] = dict(sources or {})
		self.cache_dir = cache_dir or private_cache_dir()
		session = self

		@injectable
		def make_source_provider(invoker: Invoker) -> SourceProvider:
			org = invoker(source_provider)

			def provider(module_path: str) -> str:
				if module_path in session.sources:
					return session.sources[module_path]
				return org(module_path)
			return provider

		def make_meta_factory() -> ModuleMetaFactory:
			return lambda module_path: {'hash': 'dummy', 'path': module_path}

		definitions = TranspileApp.definitions(Args(['-c', config]))
		definitions.update({
			to_fullyname(ModulePaths): lambda: ModulePaths([ModulePath(p, language='py') for p in session.sources]),
			to_fullyname(SourceProvider): make_source_provider,
			to_fullyname(ModuleMetaFactory): make_meta_factory,
			to_fullyname(CacheSetting): lambda: CacheSetting(basedir=session.cache_dir, enabled=cache_enabled),
		})
		if extra_definitions:
			definitions.update(extra_definitions)
		self.app = App(definitions)

	# -- accessors on the real objects
	def get(self, symbol: Any) -> Any:
		return self.app.resolve(symbol)

	@property
	def modules(self):
		from rogw.tranp.module.modules import Modules
		return self.get(Modules)

	@property
	def transpiler(self):
		from rogw.tranp.transpiler.types import ITranspiler
		return self.get(ITranspiler)

	@property
	def reflections(self):
		from rogw.tranp.semantics.reflections import Reflections
		return self.get(Reflections)

	@property
	def entrypoints(self):
		from rogw.tranp.syntax.ast.entrypoints import Entrypoints
		return self.get(Entrypoints)

	@property
	def db(self):
		from rogw.tranp.semantics.reflection.db import SymbolDB
		return self.get(SymbolDB)

	def set_source(self, module_path: str, text: str) -> None:
		self.sources[module_path] = text

	def load(self, module_path: str):
		return self.modules.load(module_path)

	def unload(self, module_path: str) -> None:
		self.modules.unload(module_path)

	def reload(self, module_path: str, text: str):
		self.set_source(module_path, text)
		self.modules.unload(module_path)
		return self.modules.load(module_path)

	def transpile(self, module_path: str) -> str:
		return self.transpiler.transpile(self.modules.load(module_path).entrypoint)

	def entrypoint(self, module_path: str):
		"""Node tree only (no symbol resolution)."""
		return self.entrypoints.load(module_path)


def strip_meta_header(text: str) -> str:
	lines = text.split('\n')
	if lines and lines[0].startswith('// @tranp.meta'):
		return '\n'.join(lines[1:])
	return text
