"""3.12 fallback shims (only active when no CPython 3.13 exists; see DESIGN §2.1)."""
import builtins
import sys
import typing

if sys.version_info < (3, 13):
	if not hasattr(typing, 'TypeIs'):
		try:
			from typing_extensions import TypeIs  # type: ignore
			typing.TypeIs = TypeIs  # type: ignore
		except Exception:
			typing.TypeIs = typing.TypeGuard  # type: ignore

	class _Property(property):
		@builtins.property
		def __name__(self):  # type: ignore
			return self.fget.__name__ if self.fget else ''

	builtins.property = _Property  # type: ignore
