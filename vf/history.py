"""Sequential operation histories over a scratch project driven through the real command line (C05, C06)."""
from __future__ import annotations

import json
import os
import random
import shutil

from vf import cli
from vf.gen.histproj import HistProject


class History:
	def __init__(self, r: random.Random, shape: str, workdir: str, name: str = 'h', own_grammar: bool = False, symlinked: str | None = None) -> None:
		self.r = r
		self.hp = HistProject(shape)
		self.root = os.path.join(workdir, name)
		os.makedirs(self.root)
		self.clock = 1_700_000_000.0
		self.cache_enabled = True
		# half of the projects configure a template directory of their own that requests includes through emit_depends
		self.user_templates = r.random() < 0.5
		self.output_dirs = ['out/']
		# a grammar file of the project's own (edited during the history) instead of the stock one
		self.own_grammar = own_grammar
		self.grammar_variant = 0
		self.log: list[list] = []
		self.edit_seq = 0
		# per module key: sequence number of the last edit / touch, and of the last (successful) output write
		self.last_change: dict[str, int] = {k: 0 for k in self.hp.names}
		self.write_all()
		# one module file may be a symbolic link into a directory outside the project's input globs (edits go to the link's target)
		self.symlinked = symlinked
		if symlinked:
			name = self.hp.names[symlinked]
			path = os.path.join(self.root, name.replace('.', os.sep) + '.py')
			store = os.path.join(self.root, 'store')
			os.makedirs(store, exist_ok=True)
			target = os.path.join(store, os.path.basename(path))
			os.replace(path, target)
			os.symlink(target, path)
		if self.own_grammar:
			cli.write_grammar(self.root, 0, self.tick())
		self.write_config()

	# -- primitives
	def tick(self) -> float:
		# strictly increasing modification times; sub-second steps are what a save followed by an immediate re-run looks like
		self.clock += self.r.choice([10.0, 2.0, 0.25, 0.25, 0.004])
		return self.clock

	def write_all(self) -> None:
		t = self.tick()
		cli.write_sources(self.root, self.hp.sources(), {m: t for m in self.hp.modules()})

	def write_config(self) -> None:
		di = None if self.cache_enabled else {'rogw.tranp.cache.cache.CacheSetting': 'vf.cachecfg.cache_off'}
		tdirs = [cli.write_user_templates(self.root)] if self.user_templates else None
		cli.write_config(self.root, [f'{self.hp.pkg}/**/*.py'], self.output_dirs, di=di, template_dirs=tdirs, grammar=os.path.join(self.root, 'grammar.lark') if self.own_grammar else None)

	def edit_grammar(self, variant: int | None = None) -> None:
		self.grammar_variant = (1 - self.grammar_variant) if variant is None else variant
		cli.write_grammar(self.root, self.grammar_variant, self.tick())
		self.log.append(['edit-grammar', self.grammar_variant])

	def edit(self, key: str, variant: dict) -> None:
		self.hp.variants[key] = variant
		t = self.tick()
		name = self.hp.names[key]
		cli.write_sources(self.root, {name: self.hp.source(key)}, {name: t})
		self.edit_seq += 1
		self.last_change[key] = self.edit_seq
		self.log.append(['edit', key, variant])

	def touch(self, key: str) -> None:
		t = self.tick()
		path = os.path.join(self.root, self.hp.names[key].replace('.', os.sep) + '.py')
		os.utime(path, (t, t))
		self.log.append(['touch', key])

	def clear_cache(self) -> None:
		shutil.rmtree(os.path.join(self.root, '.cache'), ignore_errors=True)
		self.log.append(['clear-cache'])

	def set_cache(self, enabled: bool) -> None:
		self.cache_enabled = enabled
		self.write_config()
		self.log.append(['cache', enabled])

	def delete_output(self, key: str) -> None:
		p = self.output_path(key)
		if os.path.exists(p):
			os.remove(p)
		self.log.append(['delete-output', key])

	def output_rel(self, key: str) -> str:
		return self.hp.names[key].replace('.', os.sep) + '.h'

	def output_path(self, key: str) -> str:
		return os.path.join(self.root, 'out', self.output_rel(key))

	def run(self, force: bool, hashseed: str = '0', audit: bool = False, inputs: list[str] | None = None):
		log = os.path.join(self.root, f'audit-{len(self.log)}.jsonl') if audit else None
		args = (['-f'] if force else [])
		for i in inputs or []:
			args += ['-i', i]
		p = cli.run_cli(self.root, args, hashseed=hashseed, audit_log=log)
		self.log.append(['run -f' if force else 'run', {'failed': cli.failed(p)}])
		events = []
		if log and os.path.exists(log):
			with open(log) as f:
				events = [json.loads(l) for l in f if l.strip()]
			os.remove(log)
		return p, events

	def run_edit_run(self, force: bool, key: str, variant: dict):
		"""run; edit(key, variant); run -- all three inside one interpreter process."""
		self.hp.variants[key] = variant
		t = self.tick()
		name = self.hp.names[key]
		rel = name.replace('.', os.sep) + '.py'
		args = ['-f'] if force else []
		p = cli.run_plan(self.root, [['run', args], ['write', rel, self.hp.source(key), t], ['run', args]])
		self.edit_seq += 1
		self.last_change[key] = self.edit_seq
		self.log.append(['run+edit+run in one process', key, variant, {'failed': cli.failed(p)}])
		return p

	def outputs(self) -> dict[str, str]:
		return cli.read_outputs(self.root)

	def cold_reference(self, workdir: str, tag: str) -> tuple[dict[str, str], bool, str]:
		"""Same sources, same settings, pristine directory (no cache, no outputs), forced run."""
		ref = os.path.join(workdir, f'ref-{tag}')
		os.makedirs(ref)
		try:
			cli.write_sources(ref, self.hp.sources())
			tdirs = [cli.write_user_templates(ref)] if self.user_templates else None
			gram = cli.write_grammar(ref, self.grammar_variant) if self.own_grammar else None
			cli.write_config(ref, [f'{self.hp.pkg}/**/*.py'], self.output_dirs, template_dirs=tdirs, grammar=gram)
			p = cli.run_cli(ref, ['-f'])
			return cli.read_outputs(ref), cli.failed(p), (p.stdout + p.stderr)[-600:]
		finally:
			shutil.rmtree(ref, ignore_errors=True)

	def describe(self) -> dict:
		return {'shape': self.hp.shape, 'symlinked': self.symlinked, 'own_grammar': self.own_grammar, 'grammar_variant': self.grammar_variant, 'variants': {k: dict(v) for k, v in self.hp.variants.items()}, 'log': self.log}
