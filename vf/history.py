"""Sequential operation histories over a scratch project driven through the real command line (C05, C06)."""
from __future__ import annotations

import json
import os
import random
import shutil

from vf import cli
from vf.gen.histproj import HistProject


class History:
	def __init__(self, r: random.Random, shape: str, workdir: str, name: str = 'h') -> None:
		self.r = r
		self.hp = HistProject(shape)
		self.root = os.path.join(workdir, name)
		os.makedirs(self.root)
		self.clock = 1_700_000_000.0
		self.cache_enabled = True
		# half of the projects configure a template directory of their own that requests includes through emit_depends
		self.user_templates = r.random() < 0.5
		self.output_dirs = ['out/']
		self.log: list[list] = []
		self.edit_seq = 0
		# per module key: sequence number of the last edit / touch, and of the last (successful) output write
		self.last_change: dict[str, int] = {k: 0 for k in self.hp.names}
		self.write_all()
		self.write_config()

	# -- primitives
	def tick(self) -> float:
		# strictly increasing modification times; sub-second steps are what a save followed by an immediate re-run looks like
		self.clock += self.r.choice([10.0, 2.0, 0.25, 0.25, 0.004])
		return self.clock

	def write_all(self) -> None:
		t = self.tick()
		cli.write_sources(self.root, self.hp.sources(), {m: t for m in self.hp.modules()})

	def write_config(self) -> None:
		di = None if self.cache_enabled else {'rogw.tranp.cache.cache.CacheSetting': 'vf.cachecfg.cache_off'}
		tdirs = [cli.write_user_templates(self.root)] if self.user_templates else None
		cli.write_config(self.root, [f'{self.hp.pkg}/**/*.py'], self.output_dirs, di=di, template_dirs=tdirs)

	def edit(self, key: str, variant: dict) -> None:
		self.hp.variants[key] = variant
		t = self.tick()
		name = self.hp.names[key]
		cli.write_sources(self.root, {name: self.hp.source(key)}, {name: t})
		self.edit_seq += 1
		self.last_change[key] = self.edit_seq
		self.log.append(['edit', key, variant])

	def touch(self, key: str) -> None:
		t = self.tick()
		path = os.path.join(self.root, self.hp.names[key].replace('.', os.sep) + '.py')
		os.utime(path, (t, t))
		self.log.append(['touch', key])

	def clear_cache(self) -> None:
		shutil.rmtree(os.path.join(self.root, '.cache'), ignore_errors=True)
		self.log.append(['clear-cache'])

	def set_cache(self, enabled: bool) -> None:
		self.cache_enabled = enabled
		self.write_config()
		self.log.append(['cache', enabled])

	def delete_output(self, key: str) -> None:
		p = self.output_path(key)
		if os.path.exists(p):
			os.remove(p)
		self.log.append(['delete-output', key])

	def output_rel(self, key: str) -> str:
		return self.hp.names[key].replace('.', os.sep) + '.h'

	def output_path(self, key: str) -> str:
		return os.path.join(self.root, 'out', self.output_rel(key))

	def run(self, force: bool, hashseed: str = '0', audit: bool = False, inputs: list[str] | None = None):
		log = os.path.join(self.root, f'audit-{len(self.log)}.jsonl') if audit else None
		args = (['-f'] if force else [])
		for i in inputs or []:
			args += ['-i', i]
		p = cli.run_cli(self.root, args, hashseed=hashseed, audit_log=log)
		self.log.append(['run -f' if force else 'run', {'failed': cli.failed(p)}])
		events = []
		if log and os.path.exists(log):
			with open(log) as f:
				events = [json.loads(l) for l in f if l.strip()]
			os.remove(log)
		return p, events

	def outputs(self) -> dict[str, str]:
		return cli.read_outputs(self.root)

	def cold_reference(self, workdir: str, tag: str) -> tuple[dict[str, str], bool, str]:
		"""Same sources, same settings, pristine directory (no cache, no outputs), forced run."""
		ref = os.path.join(workdir, f'ref-{tag}')
		os.makedirs(ref)
		try:
			cli.write_sources(ref, self.hp.sources())
			tdirs = [cli.write_user_templates(ref)] if self.user_templates else None
			cli.write_config(ref, [f'{self.hp.pkg}/**/*.py'], self.output_dirs, template_dirs=tdirs)
			p = cli.run_cli(ref, ['-f'])
			return cli.read_outputs(ref), cli.failed(p), (p.stdout + p.stderr)[-600:]
		finally:
			shutil.rmtree(ref, ignore_errors=True)

	def describe(self) -> dict:
		return {'shape': self.hp.shape, 'variants': {k: dict(v) for k, v in self.hp.variants.items()}, 'log': self.log}
