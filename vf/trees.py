"""Helpers shared by the tree-level checks (C02, C09, C10, C15, C16): parse with the real parser, build fresh Nodes."""
import glob
import os

from vf.common import REPO


def real_module_paths() -> list[str]:
	"""Every .py of the repository as a dotted module path (tranp reads them through its own source loader)."""
	out = []
	for pat in ('rogw/**/*.py', 'example/**/*.py', 'tests/**/*.py', 'data/**/*.py'):
		for f in sorted(glob.glob(os.path.join(REPO, pat), recursive=True)):
			rel = os.path.relpath(f, REPO)
			if os.path.getsize(f) == 0:
				continue
			out.append(rel[:-3].replace(os.sep, '.'))
	return out


def read_module_text(module_path: str) -> str:
	with open(os.path.join(REPO, module_path.replace('.', os.sep) + '.py'), encoding='utf-8') as f:
		return f.read()


def lark_parser(session):
	"""The real lark.Lark instance tranp uses (built from /repo/data/grammar.lark)."""
	from rogw.tranp.syntax.ast.parser import SyntaxParser
	return session.get(SyntaxParser).dirty_get_origin()


def parse_to_entry(session, text: str):
	"""text -> EntryOfLark root through the real parser object (no cache involved)."""
	from rogw.tranp.implements.syntax.lark.entry import EntryOfLark
	return EntryOfLark(lark_parser(session).parse(text))


def fresh_nodes(session, root_entry, module_path: str = '__main__'):
	"""A fresh Nodes + NodeResolver pair over `root_entry`, wired exactly like providers.syntax.entrypoints.entrypoint_loader
	does (shared container combined with the per-module dependency definitions), except that the root entry is given."""
	from rogw.tranp.lang.di import LazyDI
	from rogw.tranp.lang.locator import Invoker, Locator
	from rogw.tranp.module.loader import ModuleDependencyProvider
	from rogw.tranp.module.types import ModulePath
	from rogw.tranp.syntax.ast.query import Query
	from rogw.tranp.syntax.ast.resolver import SymbolMapping
	from rogw.tranp.syntax.node.resolver import NodeResolver
	shared = session.app._App__di
	shared.resolve(SymbolMapping)
	deps = dict(session.get(ModuleDependencyProvider)())
	deps['rogw.tranp.syntax.ast.entry.Entry'] = lambda: root_entry
	new_di = shared.combine(LazyDI.instantiate(deps))
	new_di.rebind(Locator, lambda: new_di)
	new_di.rebind(Invoker, lambda: new_di.invoke)
	new_di.bind(ModulePath, lambda: ModulePath(module_path, 'py'))
	nodes = new_di.resolve(Query)
	resolver = new_di.resolve(NodeResolver)
	return nodes, resolver


def walk_entries(root):
	"""Independent pre-order walk of an Entry tree: yields (index_path tuple, entry, expected full path)."""
	def rec(entry, idx, path):
		yield idx, entry, path
		if entry.has_child:
			children = entry.children
			names = [c.name for c in children]
			for i, c in enumerate(children):
				tag = names[i]
				elem = tag if names.count(tag) == 1 else f'{tag}[{i}]'
				yield from rec(c, idx + (i,), path + '.' + elem)
	yield from rec(root, (), root.name)
