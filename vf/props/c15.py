"""C15 — the stored form of a syntax tree restores an identical tree.

The real Serialization.dumps/loads (through real JSON text) is applied to parse trees of generated and real modules and the
restored tree is compared field by field through the EntryOfLark view; Nodes built over both trees must give the same
paths, node classes, token texts and spans; the end-to-end route goes through a real CacheProvider in a scratch directory.
"""
from __future__ import annotations

import json
import os
import random
import shutil
import tempfile

from vf.common import Acc, Ctx, sig_of, fmt_exc

LEVEL = 'exploration'
RULE = ('trees: lark parse trees of generated modules (vf.gen.syntactic; every alternative that leaves empty slots or anonymous tokens: '
	'parameterless def, bare return, trailing commas, class without bases, slices with holes) and of the repository\'s own modules; '
	'one evaluation = one tree through dumps -> json text -> loads (a sample also through the on-disk cache of SyntaxParserOfLark); '
	'distinct = distinct multiset of (tag, depth); non-trivial = the tree holds an empty slot or a multi-line token')
ASSUMPTIONS = ['only what EntryOfLark exposes is compared (name, value, child order, empty slots, begin/end line and column); lark start_pos/end_pos are not part of the stored form']
SHARDS = {'quick': 8, 'thorough': 16}
BUDGET_S = {'quick': 50, 'thorough': 540}
N_TREES = {'quick': 480, 'thorough': 9000}
MIN_OBS = {'entries_compared': {'quick': 20000, 'thorough': 300000}}

_SESSION = None


def session():
	global _SESSION
	if _SESSION is None:
		from vf.session import Session
		_SESSION = Session()
	return _SESSION


def compare_entries(a, b, path: str = 'root') -> str | None:
	"""Field-by-field comparison through the Entry view; returns a description of the first difference."""
	stack = [(a, b, path)]
	n = 0
	while stack:
		x, y, p = stack.pop()
		n += 1
		for field in ('name', 'has_child', 'is_terminal', 'is_empty', 'value'):
			if getattr(x, field) != getattr(y, field):
				return f'{p}: {field} {getattr(x, field)!r} != {getattr(y, field)!r}'
		if x.source_map != y.source_map:
			return f'{p}: span {x.source_map} != {y.source_map}'
		cx, cy = x.children, y.children
		if len(cx) != len(cy):
			return f'{p}: {len(cx)} children != {len(cy)}'
		for i, (u, v) in enumerate(zip(cx, cy)):
			stack.append((u, v, f'{p}.{u.name}[{i}]'))
	compare_entries.count = n  # type: ignore
	return None


def roundtrip(root):
	from rogw.tranp.implements.syntax.lark.entry import EntryOfLark, Serialization
	data = Serialization.dumps(root.source)
	text = json.dumps(data, separators=(',', ':'))
	return EntryOfLark(Serialization.loads(json.loads(text)))


def compare_nodes(acc: Acc, root, restored, case: dict, r: random.Random) -> None:
	from rogw.tranp.errors import Errors
	from vf.trees import fresh_nodes, walk_entries
	s = session()
	n1, _ = fresh_nodes(s, root)
	n2, _ = fresh_nodes(s, restored)
	paths = [p for _, _, p in walk_entries(root)]
	paths2 = [p for _, _, p in walk_entries(restored)]
	if paths != paths2:
		acc.violation('nodes/paths', f'path sets differ: {len(paths)} vs {len(paths2)}', case)
		return
	sample = paths if len(paths) <= 400 else r.sample(paths, 400)
	for p in sample:
		def view(nodes):
			try:
				node = nodes.by(p)
				return (type(node).__name__, node.tokens, str(node.source_map), node.id)
			except Errors.Error as e:
				return ('raise', type(e).__name__)
		a, b = view(n1), view(n2)
		acc.see('nodes_compared', a[0])
		if a != b:
			acc.violation('nodes/differ', f'{p!r}: fresh {a} vs restored {b}', case)
			return


def end_to_end(acc: Acc, sources: dict[str, str], case: dict) -> None:
	"""Two fresh applications sharing one cache directory: the second must *load* what the first stored."""
	from rogw.tranp.app.env import SourceEnvPath
	from vf.session import Session
	scratch = tempfile.mkdtemp(prefix='vf-c15-')
	try:
		src_dir = os.path.join(scratch, 'src')
		cache_dir = os.path.join(scratch, 'cache')
		os.makedirs(src_dir)
		for name, text in sources.items():
			with open(os.path.join(src_dir, name + '.py'), 'w', encoding='utf-8') as f:
				f.write(text)
		defs = {'rogw.tranp.app.env.SourceEnvPath': lambda: SourceEnvPath.instantiate([src_dir])}
		trees = []
		# monitor: the second application must really *load* the stored tree (EntryStored.load reached), not parse again
		from rogw.tranp.implements.syntax.lark import parser as lark_parser_mod
		loads_seen = []
		orig_load = lark_parser_mod.EntryStored.__dict__['load']
		def counting_load(cls, stream):
			loads_seen.append(getattr(stream, 'name', '?'))
			return orig_load.__func__(cls, stream)
		lark_parser_mod.EntryStored.load = classmethod(counting_load)
		for run in range(2):
			s = Session(cache_dir=cache_dir, extra_definitions=defs)
			before = set(os.listdir(cache_dir)) if os.path.isdir(cache_dir) else set()
			roots = {}
			for name in sources:
				ep = s.entrypoint(name)
				nodes = ep._Node__nodes
				roots[name] = nodes._Nodes__entries.by('file_input')
			after = set(os.listdir(cache_dir))
			trees.append((roots, before, after))
		lark_parser_mod.EntryStored.load = orig_load
		(first, b1, a1), (second, b2, a2) = trees
		acc.see('end_to_end', 'stored-tree-loaded' if len(loads_seen) >= len(sources) else 'stored-tree-NOT-loaded')
		if len(loads_seen) < len(sources):
			acc.inconc('second run did not load the stored tree (monitor on EntryStored.load saw nothing)', sorted(a1))
			return
		stored = [f for f in a1 if f.endswith('.json') and any(f.startswith(n + '-') for n in sources)]
		acc.see('end_to_end', 'cache-files-written' if len(stored) == len(sources) else 'cache-files-missing')
		if len(stored) != len(sources):
			acc.violation('e2e/not-stored', f'first run left {sorted(a1)} for modules {sorted(sources)}', case)
			return
		if a2 != a1:
			acc.violation('e2e/rewritten', f'second run changed the cache directory: {sorted(a1)} -> {sorted(a2)}', case)
		for name in sources:
			d = compare_entries(first[name], second[name], 'file_input')
			acc.see('end_to_end', 'tree-compared')
			if d is not None:
				acc.violation('e2e/tree-differs', f'{name}: {d}', case)
	finally:
		shutil.rmtree(scratch, ignore_errors=True)


def features_of(root) -> tuple[bool, str]:
	from vf.trees import walk_entries
	ents = list(walk_entries(root))
	has_empty = any(e.is_empty for _, e, _ in ents)
	multi = any(e.is_terminal and '\n' in e.value for _, e, _ in ents)
	return has_empty or multi, sig_of(sorted((e.name, len(i)) for i, e, _ in ents))


def check_case(acc: Acc, case: dict) -> None:
	from vf.trees import parse_to_entry, read_module_text
	r = random.Random(case.get('seed', 0))
	text = case['source'] if case['kind'] == 'source' else read_module_text(case['module'])
	try:
		root = parse_to_entry(session(), text)
	except Exception as e:  # noqa
		acc.case(None)
		acc.inconc('not parsable by the grammar: ' + type(e).__name__, (case.get('module') or text)[:200])
		return
	nontrivial, sig = features_of(root)
	try:
		restored = roundtrip(root)
	except Exception as e:  # noqa
		acc.case(sig, None, nontrivial)
		acc.violation('roundtrip/raise', f'{type(e).__name__}: {e}', case)
		return
	d = compare_entries(root, restored, 'file_input')
	acc.see('entries_compared', case['kind'], getattr(compare_entries, 'count', 0))
	if d is not None:
		acc.violation('roundtrip/differs', d, case)
	else:
		compare_nodes(acc, root, restored, case, r)
		# idempotence of the stored form itself
		from rogw.tranp.implements.syntax.lark.entry import Serialization
		if Serialization.dumps(restored.source) != Serialization.dumps(root.source):
			acc.violation('roundtrip/dump-not-stable', 'dumps(loads(dumps(T))) != dumps(T)', case)
	if case.get('e2e'):
		end_to_end(acc, {'m_vf_c15': text}, case)
	acc.case(sig, {'kind': case['kind'], 'source': text[:240]} if case['kind'] == 'source' else {'kind': 'module', 'module': case['module']}, nontrivial)


SPECIAL = [
	# soft keywords used as identifiers (their tokens are not NAME tokens)
	'match = 1\ncase = match + 1\nx = obj.match(case)\ndef match_all(match: int, case: str = "c") -> int:\n\treturn match\n',
	'class K:\n\tmatch: int\n\tdef case(self) -> int:\n\t\treturn self.match\n',
	# characters str.splitlines() breaks at (and lark does not) inside strings and comments; CR LF files with comments and multi-line strings
	"s = 'a\x0bb'\nt = 'c\x0cd' + s\nu = 'e\x1cf\x1dg\x1eh'\nv = 'i\x85j\u2028k\u2029l'\nw = u + v\n",
	"# note \x0b more \x85 and \u2028 more\nz = 1  # tail \x1c note\nw = z\n",
	'x = 1  # note\r\ny = x\r\n# only a comment\r\nz = y\r\n',
	'def f() -> str:\r\n\t"""doc line one\r\n\tline two\r\n\t"""\r\n\ts = \'\'\'a\r\nb\'\'\'\r\n\treturn s\r\n',
	's = """first\n\nthird  \n\t\n"""\nt = s\n',
	# the file ends inside a block, on a line of nothing but indentation, without a final line break
	'class A:\n\tdef g(self) -> None:\n\t\tpass\n\t', 'def f() -> None:\n\tpass\n\t\t', 'if a:\n\tx = 1\n    ', 'x = 1', 'x = 1\n\n\n',
	# physical lines of more than a thousand (and exactly a thousand) columns, a module of more than a thousand lines
	'table = [' + ', '.join(str(i) for i in range(450)) + ']\nafter = table\n',
	"s = '" + 'x' * (1000 - len("s = '") - 1) + "'\nt = s\n",
	"s = '" + 'y' * 2500 + "' + tail\n",
	''.join(f'v{i} = {i}\n' for i in range(1100)) + 'last = v1099\n',
	'def f() -> None:\n\treturn\n',
	'def f(a: int,) -> int:\n\treturn a\n',
	'class X:\n\tpass\n',
	'class X():\n\tpass\n',
	'x = a[:]\ny = a[1:]\nz = a[:2]\nw = a[::2]\n',
	'x = (1,)\ny = [1, 2,]\nz = {1: 2,}\nf(a, b,)\n',
	'x = """a\nb\n"""\n',
	'if a: pass\nelif b: pass\nelse: pass\n',
	'@deco\ndef f(*args: int, **kw: str) -> None:\n\t...\n',
	'from a.b import (c as d, e,)\n',
	'try:\n\tpass\nexcept E:\n\tpass\n',
	'with a, b as c:\n\tpass\n',
	'x: int\ny: list[int] = []\n',
	'\n\n# comment\nx = 1\n',
]


def classify(v: dict) -> str | None:
	return None


def shard(ctx: Ctx, acc: Acc) -> None:
	from vf.gen.syntactic import SynGen
	from vf.trees import real_module_paths
	n = N_TREES[ctx.tier]
	real = real_module_paths()
	if ctx.shard == 0:
		for i, text in enumerate(SPECIAL):
			check_case(acc, {'kind': 'source', 'source': text, 'seed': i, 'e2e': i % 4 == 0})
	for i in range(n):
		if not ctx.mine(i):
			continue
		if ctx.out_of_time():
			acc.truncated_by_budget = True
			break
		r = ctx.rng('tree', i)
		if i % 8 < 7:
			g = SynGen(r, max_depth=r.choice([1, 2, 3, 4]))
			case = {'kind': 'source', 'source': g.module(), 'seed': i, 'e2e': i % 40 == 0}
		else:
			case = {'kind': 'module', 'module': real[(i // 8) % len(real)], 'seed': i, 'e2e': i % 64 == 7}
		try:
			check_case(acc, case)
		except Exception as e:  # noqa
			acc.extra.setdefault('harness_errors', []).append(fmt_exc(e) + repr(case)[:600])
			return


def replay(ctx: Ctx, case: dict, acc: Acc) -> None:
	check_case(acc, case)
