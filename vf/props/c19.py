"""C19 — the dependency container follows its reference model.

History + executable model: random operation sequences are applied to real DI / LazyDI containers and to
vf.oracle.di_model side by side; after every operation the observable outcome (can_resolve answer, identity
class of the resolved object, arguments the factory received, exception class) must agree.
"""
from __future__ import annotations

import random

from vf.common import Acc, Ctx, sig_of
from vf.oracle.di_model import Expect, MContainer, MValueError

LEVEL = 'exploration'
RULE = ('random operation sequences (length 8..40) over 8 symbol spellings (two generic aliases of one origin, two classes of one name nested in different classes), 24 factories '
	'(classes, annotated functions, constructors, bound methods, callable object, lambdas; direct and by-name lazy registration) and '
	'any container created so far (including further containers instantiated from the dict object an earlier one was given, which must stay unchanged); one evaluation = one sequence replayed on the real container and the model; distinct = distinct '
	'operation-kind sequence; non-trivial = the sequence holds at least one combine or rebind or failing operation')
ASSUMPTIONS = [
	'factories are acyclic by construction (a factory bound to a symbol only depends on symbols of lower level)',
	'bind() on a symbol that is lazily defined but not yet materialised is not generated (LazyDI uses exactly that call internally to materialise; the statement does not define it)',
	'containers are only combined with containers of the same class',
	'parameters that are not injected are always annotated, as everywhere in tranp',
]
SHARDS = {'quick': 8, 'thorough': 16}
BUDGET_S = {'quick': 40, 'thorough': 420}
N_CASES = {'quick': 30000, 'thorough': 1500000}
MIN_OBS = {'op': {'quick': 100000, 'thorough': 2000000}}

SYMS = ['S0', 'S1', 'S2', 'G', 'G[int]', 'G[str]', 'L.Opt', 'R.Opt']  # the last two: same class name in two enclosing classes (direct binding only)
LAZY_SYMS = ['S0', 'S1', 'S2', 'G']


def universe():
	from vf.props import c19_universe as u
	return u


# DI documents its factories as function / method / class; callable *objects* are outside that domain
# (to_fullyname() needs __qualname__) and are not generated.
EXCLUDED_FACTORIES = {'callable_obj'}


def allowed_factories(u, sym: str) -> list[str]:
	lvl = u.LEVEL[u.ORIGIN[sym]]
	return [f for f, (_, params, _) in u.FACTORIES.items() if f not in EXCLUDED_FACTORIES and all(u.LEVEL[p] < lvl for p in params if isinstance(p, str))]


# ---- monitor on DI.invoke: which (container, factory name) pairs went through invoke before, and where an exception started
INVOKED: set = set()
_PATCHED = [False]


def install_invoke_monitor() -> None:
	if _PATCHED[0]:
		return
	from rogw.tranp.lang.di import DI
	orig = DI.invoke

	def invoke(self, factory, *rest):
		key = (id(self), f'{getattr(factory, "__module__", "?")}.{getattr(factory, "__qualname__", "?")}')
		first = key not in INVOKED
		INVOKED.add(key)
		try:
			return orig(self, factory, *rest)
		except Exception as e:  # noqa
			if not hasattr(e, '_vf_origin'):
				e._vf_origin = (key[1], first)  # innermost invoke the exception passed through
			raise

	DI.invoke = invoke  # type: ignore
	_PATCHED[0] = True


def gen_sequence(r: random.Random) -> list[list]:
	u = universe()
	n = r.choice([8, 12, 20, 30, 40])
	ops: list[list] = []
	ncont = 0
	kinds: list[str] = []
	# shadow of which (container, origin) is lazily defined and not materialised, tracked approximately by the generator via the model at run time;
	# the generator itself only emits abstract ops, preconditions are checked when the op is applied (skipped if unmet).
	for _ in range(r.choice([1, 2])):
		if r.random() < 0.55:
			defs = {}
			for s in LAZY_SYMS:
				if r.random() < 0.5:
					f = r.choice(allowed_factories(u, s))
					by_name = u.FACTORIES[f][2] is not None and r.random() < 0.6
					defs[s] = [f, by_name]
			ops.append(['new_lazy', defs])
			kinds.append('Lazy')
		else:
			ops.append(['new_di'])
			kinds.append('DI')
		ncont += 1
	for _ in range(n):
		c = r.randrange(ncont)
		x = r.random()
		sym = r.choice(SYMS)
		if x < 0.16:
			ops.append(['bind', c, sym, r.choice(allowed_factories(u, sym))])
		elif x < 0.24:
			ops.append(['unbind', c, sym])
		elif x < 0.36:
			ops.append(['rebind', c, sym, r.choice(allowed_factories(u, sym))])
		elif x < 0.58:
			ops.append(['resolve', c, sym])
		elif x < 0.68:
			ops.append(['can_resolve', c, sym])
		elif x < 0.86:
			f = r.choice([x for x in u.FACTORIES if x not in EXCLUDED_FACTORIES])
			ops.append(['invoke', c, f, r.choice(['match', 'match', 'match', 'drop', 'extra', 'wrongtype', 'explicit']), r.randrange(1000)])
		elif x < 0.95:
			same = [i for i in range(ncont) if kinds[i] == kinds[c]]
			ops.append(['combine', c, r.choice(same)])
			kinds.append(kinds[c])
			ncont += 1
		else:
			y = r.random()
			lazies = [i for i, o in enumerate([o for o in ops if o[0] in ('new_di', 'new_lazy', 'new_lazy_same', 'combine')]) if o[0] == 'new_lazy']
			if y < 0.4:
				ops.append(['new_di'])
				kinds.append('DI')
			elif y < 0.7 or not lazies:
				ops.append(['new_lazy', {}])
				kinds.append('Lazy')
			else:
				# a second container instantiated from the very dict object an earlier one was given
				ops.append(['new_lazy_same', r.choice(lazies)])
				kinds.append('Lazy')
			ncont += 1
	return ops


class Mismatch(Exception):
	pass


class Runner:
	def __init__(self) -> None:
		from rogw.tranp.lang.di import DI, LazyDI
		install_invoke_monitor()
		INVOKED.clear()
		self.DI, self.LazyDI = DI, LazyDI
		self.u = universe()
		self.real: list = []
		self.model: list[MContainer] = []
		self.seen: dict[int, object] = {}
		self.trace: list[str] = []
		self.defs: dict[int, tuple] = {}  # container index -> (the dict object it was instantiated from, its content then, the op's spec)

	def match(self, e, real, where: str) -> None:
		if isinstance(e, Expect):
			if e.real is not None:
				if e.real is not real:
					raise Mismatch(f'{where}: expected the instance {e.real!r} resolved earlier for this binding generation, got {real!r}')
				return
			if id(real) in self.seen:
				raise Mismatch(f'{where}: expected a fresh instance from {e.factory}, got previously seen {real!r}')
			fid = getattr(real, 'fid', None)
			if fid != self.u.PRODUCT_FID[e.factory]:
				raise Mismatch(f'{where}: expected a product of {e.factory}, got {real!r}')
			args = getattr(real, 'args', ())
			if len(args) != len(e.args):
				raise Mismatch(f'{where}: {real!r} received {len(args)} args, expected {len(e.args)}')
			self.seen[id(real)] = real
			e.real = real
			for i, (ea, ra) in enumerate(zip(e.args, args)):
				self.match(ea, ra, f'{where}.arg{i}')
		else:
			if e is not real and e != real:
				raise Mismatch(f'{where}: expected pass-through value {e!r}, got {real!r}')

	def rest_args(self, mc: MContainer, factory: str, mode: str, salt: int) -> list:
		params = self.u.FACTORIES[factory][1]
		k = 0
		for p in params:
			if not (isinstance(p, str) and p in mc.bind):
				break
			k += 1
		if mode == 'explicit':
			# arguments also for leading parameters the container is supposed to fill itself (from parameter j on)
			k = salt % (k + 1)
		rest = []
		for p in params[k:]:
			if isinstance(p, tuple):
				obj = p[0]() if salt % 3 else None
				if obj is not None:
					self.seen[id(obj)] = obj
				rest.append(obj)
			elif isinstance(p, str):
				obj = self.u.SYMBOLS[p]()
				self.seen[id(obj)] = obj
				rest.append(obj)
			elif p is int:
				rest.append(salt)
			else:
				rest.append(f's{salt}')
		if mode == 'drop' and rest:
			rest.pop(salt % len(rest))
		elif mode == 'extra':
			rest.insert(salt % (len(rest) + 1), salt)
		elif mode == 'wrongtype' and rest:
			i = salt % len(rest)
			rest[i] = 1.5 if not isinstance(rest[i], float) else 'x'
		return rest

	def apply(self, op: list) -> str:
		"""Returns a short outcome tag; raises Mismatch on disagreement."""
		u = self.u
		kind = op[0]
		if kind == 'new_di':
			self.real.append(self.DI())
			self.model.append(MContainer('DI', u))
			return 'ok'
		if kind == 'new_lazy':
			defs = {}
			mc = MContainer('Lazy', u)
			for s, (f, by_name) in op[1].items():
				path = u.FACTORIES[s][2]
				defs[path] = u.FACTORIES[f][2] if by_name else u.FACTORIES[f][0]
				mc.do_bind(s, f)
				mc.bind[s].lazy_unmaterialized = True
			self.defs[len(self.real)] = (defs, dict(defs), op[1])
			self.real.append(self.LazyDI.instantiate(defs))
			self.model.append(mc)
			return 'ok'
		if kind == 'new_lazy_same':
			if op[1] not in self.defs:
				return 'skipped-precondition'
			defs, before, spec = self.defs[op[1]]
			if defs != before:
				raise Mismatch(f'new_lazy_same: the definitions dict given to container {op[1]} was changed by the container(s) made from it: {sorted(before)} -> {sorted(defs)}')
			mc = MContainer('Lazy', u)
			for s, (f, by_name) in spec.items():
				mc.do_bind(s, f)
				mc.bind[s].lazy_unmaterialized = True
			self.real.append(self.LazyDI.instantiate(defs))
			self.model.append(mc)
			return 'ok'
		c = op[1]
		rc, mc = self.real[c], self.model[c]
		if kind == 'combine':
			ro, mo = self.real[op[2]], self.model[op[2]]
			self.real.append(rc.combine(ro))
			self.model.append(mc.combine(mo))
			return 'ok'
		sym = op[2] if kind != 'invoke' else None
		if kind == 'bind':
			o = u.ORIGIN[sym]
			if o in mc.bind and mc.bind[o].lazy_unmaterialized:
				return 'skipped-precondition'
		expected_exc = None
		expect_val = None
		rest: list = []
		try:
			if kind == 'bind':
				mc.do_bind(sym, op[3])
			elif kind == 'unbind':
				mc.do_unbind(sym)
			elif kind == 'rebind':
				mc.do_rebind(sym, op[3])
			elif kind == 'resolve':
				expect_val = mc.resolve(sym)
			elif kind == 'can_resolve':
				expect_val = mc.can_resolve(sym)
			elif kind == 'invoke':
				rest = self.rest_args(mc, op[2], op[3], op[4])
				expect_val = mc.invoke(op[2], rest)
		except MValueError as e:
			expected_exc = str(e)
		got_exc = None
		got_val = None
		top_first = True
		if kind == 'invoke':
			fobj = u.FACTORIES[op[2]][0]
			top_first = (id(rc), f'{fobj.__module__}.{fobj.__qualname__}') not in INVOKED
		try:
			if kind == 'bind':
				rc.bind(u.SYMBOLS[sym], u.FACTORIES[op[3]][0])
			elif kind == 'unbind':
				rc.unbind(u.SYMBOLS[sym])
			elif kind == 'rebind':
				rc.rebind(u.SYMBOLS[sym], u.FACTORIES[op[3]][0])
			elif kind == 'resolve':
				got_val = rc.resolve(u.SYMBOLS[sym])
			elif kind == 'can_resolve':
				got_val = rc.can_resolve(u.SYMBOLS[sym])
			elif kind == 'invoke':
				got_val = rc.invoke(u.FACTORIES[op[2]][0], *rest)
		except Exception as e:  # noqa
			got_exc = e
		where = f'{kind}{op[1:]}'
		if expected_exc is not None:
			if got_exc is None:
				raise Mismatch(f'{where}: model raises ValueError ({expected_exc}); container returned {got_val!r} [first-invoke-of-factory={top_first}]')
			if type(got_exc) is not ValueError:
				origin = getattr(got_exc, '_vf_origin', ('?', True))
				raise Mismatch(f'{where}: model raises ValueError ({expected_exc}); container raised {type(got_exc).__name__}: {got_exc} [first-invoke-of-factory={origin[1]}]')
			return 'ValueError:' + expected_exc
		if got_exc is not None:
			raise Mismatch(f'{where}: model succeeds; container raised {type(got_exc).__name__}: {got_exc}')
		if kind == 'can_resolve':
			if got_val != expect_val:
				raise Mismatch(f'{where}: can_resolve={got_val}, model={expect_val}')
		elif kind in ('resolve', 'invoke'):
			self.match(expect_val, got_val, where)
		return 'ok'


def run_sequence(ops: list[list]) -> tuple[str, str, int] | None:
	"""Returns (kind, detail, failing index) or None."""
	u = universe()
	u.reset()
	rn = Runner()
	for i, op in enumerate(ops):
		try:
			rn.apply(op)
		except Mismatch as e:
			return ('model-mismatch/' + op[0], str(e), i)
		except Exception as e:  # real container failed in a place we do not guard (combine/new): report as violation with type
			return ('unexpected-exception/' + op[0], f'{type(e).__name__}: {e}', i)
	return None


def shrink(ops: list[list], kind: str) -> list[list]:
	"""Greedy removal of operations while a violation of the same kind persists (container indices are kept valid by never
	removing container-creating ops)."""
	cur = list(ops)
	changed = True
	while changed:
		changed = False
		for i in range(len(cur) - 1, -1, -1):
			if cur[i][0] in ('new_di', 'new_lazy', 'new_lazy_same', 'combine'):
				continue
			cand = cur[:i] + cur[i + 1:]
			res = run_sequence(cand)
			if res is not None and res[0] == kind:
				cur = cand
				changed = True
	res = run_sequence(cur)
	if res is not None:
		cur = cur[:res[2] + 1]
	return cur


def check_ops(acc: Acc, ops: list[list]) -> None:
	u = universe()
	u.reset()
	rn = Runner()
	failing = None
	outcomes = []
	for i, op in enumerate(ops):
		try:
			out = rn.apply(op)
			outcomes.append(out)
			acc.see('op', op[0])
			if out.startswith('ValueError'):
				acc.see('refusal', op[0] + ':' + out.split(':', 1)[1])
			if op[0] in ('combine', 'new_lazy', 'new_lazy_same', 'new_di') and out == 'ok':
				acc.see('container_kind', rn.model[-1].kind)
		except Mismatch as e:
			failing = ('model-mismatch/' + op[0], str(e), i)
			break
		except Exception as e:  # noqa
			failing = ('unexpected-exception/' + op[0], f'{type(e).__name__}: {e}', i)
			break
	if failing is None:
		for ci, (defs, before, _) in rn.defs.items():
			acc.see('caller_dict_checked', 'unchanged' if defs == before else 'changed')
			if defs != before:
				failing = ('model-mismatch/caller-dict', f'the definitions dict given to container {ci} was changed by the container: {sorted(before)} -> {sorted(defs)}', len(ops) - 1)
				break
	kinds = [o[0] for o in ops]
	nontrivial = any(k in ('combine', 'rebind') for k in kinds) or any(o.startswith('ValueError') for o in outcomes)
	acc.case(sig_of(kinds), {'ops': ops[:14], 'outcomes': outcomes[:14]} if len(ops) <= 16 else None, nontrivial)
	if failing is not None:
		small = shrink(ops[:failing[2] + 1], failing[0])
		res = run_sequence(small) or failing
		acc.violation(res[0], f'{res[1]} | shrunk history: {small!r}', {'ops': small, 'original_len': len(ops)})


def classify(v: dict) -> str | None:
	return None  # no open finding for C19 (four defects were fixed in /repo, see known_findings.json)


# witnesses of the defects fixed in /repo (status=fixed): replayed on every run, a regression is a fresh violation
FIXED_WITNESSES = [
	[['new_lazy', {'S2': ['maker_b.make', False], 'G': ['maker_b.make', False]}], ['invoke', 0, 'f_dep01', 'extra', 115]],
	[['new_di'], ['new_lazy', {}], ['rebind', 1, 'G', 'f_tail'], ['resolve', 1, 'G'], ['resolve', 1, 'G[int]']],
	[['new_di'], ['invoke', 0, 'lam_plain2', 'match', 313], ['invoke', 0, 'lam_plain2', 'extra', 847]],
	[['new_di'], ['invoke', 0, 'f_tail', 'match', 3], ['invoke', 0, 'f_tail', 'wrongtype', 4]],
	[['new_di'], ['bind', 0, 'G[str]', 'maker_b.make'], ['bind', 0, 'S0', 'S1'], ['combine', 0, 0], ['resolve', 1, 'G'], ['rebind', 0, 'G[str]', 'f_dep0'], ['combine', 1, 0], ['resolve', 2, 'G']],
	[['new_lazy', {'S0': ['f_plain2', False]}], ['new_lazy', {'S0': ['f_plain', False]}], ['resolve', 1, 'S0'], ['combine', 1, 0], ['resolve', 2, 'S0']],
	[['new_lazy', {'S0': ['f_plain2', True]}], ['new_lazy', {}], ['bind', 1, 'S0', 'G'], ['resolve', 1, 'S0'], ['combine', 1, 0], ['resolve', 2, 'S0']],
]


# scripted histories: two containers from one definitions dict; names that differ only in their enclosing class
SCRIPTED = [
	[['new_lazy', {'S0': ['f_plain', False], 'S1': ['f_dep0', True]}], ['new_lazy_same', 0], ['bind', 0, 'S2', 'f_plain2'], ['can_resolve', 1, 'S2'], ['resolve', 1, 'S2'],
		['unbind', 0, 'S1'], ['can_resolve', 1, 'S1'], ['resolve', 1, 'S1'], ['resolve', 0, 'S0'], ['resolve', 1, 'S0'], ['new_lazy_same', 0], ['resolve', 2, 'S1'], ['can_resolve', 2, 'S2']],
	[['new_lazy', {'S0': ['f_plain', False]}], ['new_lazy_same', 0], ['resolve', 0, 'S0'], ['rebind', 0, 'S0', 'f_plain2'], ['resolve', 1, 'S0'], ['resolve', 0, 'S0'], ['unbind', 1, 'S0'], ['can_resolve', 0, 'S0']],
	[['new_lazy', {}], ['bind', 0, 'L.Opt', 'L.Opt'], ['can_resolve', 0, 'R.Opt'], ['resolve', 0, 'R.Opt'], ['bind', 0, 'R.Opt', 'R.Opt'], ['resolve', 0, 'L.Opt'], ['resolve', 0, 'R.Opt'],
		['unbind', 0, 'L.Opt'], ['can_resolve', 0, 'R.Opt'], ['resolve', 0, 'R.Opt'], ['can_resolve', 0, 'L.Opt']],
	[['new_di'], ['bind', 0, 'R.Opt', 'f_plain'], ['can_resolve', 0, 'L.Opt'], ['bind', 0, 'L.Opt', 'L.Opt'], ['resolve', 0, 'L.Opt'], ['resolve', 0, 'R.Opt'], ['combine', 0, 0], ['unbind', 1, 'R.Opt'], ['resolve', 1, 'L.Opt']],
	[['new_di'], ['bind', 0, 'S0', 'S0'], ['bind', 0, 'S1', 'S1'], ['invoke', 0, 'Left.create', 'match', 1], ['invoke', 0, 'Right.create', 'match', 2], ['invoke', 0, 'Left.create', 'match', 3],
		['invoke', 0, 'Right.create', 'extra', 4], ['invoke', 0, 'Left.create', 'extra', 5]],
	[['new_lazy', {'S0': ['S0', True]}], ['invoke', 0, 'Right.create', 'match', 2], ['invoke', 0, 'Left.create', 'match', 3], ['bind', 0, 'S1', 'S1'], ['invoke', 0, 'Right.create', 'match', 6], ['invoke', 0, 'maker_a.make', 'match', 1]],
]


def shard(ctx: Ctx, acc: Acc) -> None:
	if ctx.shard == 0:
		for w in FIXED_WITNESSES + SCRIPTED:
			check_ops(acc, w)
	n = N_CASES[ctx.tier]
	for i in range(n):
		if not ctx.mine(i):
			continue
		if i % 64 == 0 and ctx.out_of_time():
			acc.truncated_by_budget = True
			break
		r = ctx.rng('seq', i)
		check_ops(acc, gen_sequence(r))


def replay(ctx: Ctx, case: dict, acc: Acc) -> None:
	check_ops(acc, case['ops'])
