"""C13 — tokenizer agrees with Python and ignores insignificant layout.

The real Tokenizer / Lexer run on generated ASCII sources rendered under several layouts; the standard library's
`tokenize` is the oracle for the significant token sequence; concat / span / balance laws are checked on the raw lexer tokens.
"""
from __future__ import annotations

import io
import random
import token as pytoken
import tokenize as pytokenize

from vf.common import Acc, Ctx, sig_of, fmt_exc

LEVEL = 'exploration'
RULE = ('a source is a random block structure (nesting <= 6) of token lines (names, decimal ints/floats, quoted/raw/triple-quoted strings '
	'with escapes and embedded quotes, every operator the tokenizer and Python share, brackets that may span lines); each structure is rendered '
	'under 5 layouts (indent unit tab or 1-8 spaces, comments at line ends / own lines, blank lines, trailing blanks, tight or loose operator '
	'spacing); one evaluation = one rendered text; distinct = distinct text; non-trivial = has a block, a bracket or a string')
ASSUMPTIONS = [
	'operators Python has but the tokenizer does not declare (// **= <<= >>= //= @= <>), symbols Python lacks (&& || ? $ ` ! ~=), exponent/hex/underscore numbers, '
	'leading-dot floats, b/u/f string prefixes and backslash line continuation are outside the supported lexical subset and not generated',
	'two adjacent operator tokens are always separated by a blank (so that neither lexer can merge them); the blank after a minus sign is never changed',
	'indentation is uniform (one unit per level), tabs and spaces are never mixed in one text',
]
SHARDS = {'quick': 8, 'thorough': 16}
BUDGET_S = {'quick': 45, 'thorough': 480}
N_PROGRAMS = {'quick': 4000, 'thorough': 120000}
MIN_OBS = {'law': {'quick': 10000, 'thorough': 200000}}

SINGLE_OPS = ['@', '.', ',', ':', ';', '=', '+', '*', '/', '%', '&', '|', '^', '~', '<', '>']
COMBINED_OPS = ['-=', '+=', '*=', '/=', '%=', '&=', '|=', '^=', '==', '!=', '<=', '>=', '<<', '>>', '->', '**', ':=', '...']
BRACKETS = [('(', ')'), ('[', ']'), ('{', '}')]
NAMES = ['a', 'b', 'x1', 'foo', '_bar', 'Baz', 'if_', 'self', 'value', 'n', 'for', 'in', 'def', 'class', 'return', 'not', 'is', 'None', 'True', 'lambda', 'r', 'f', 'rf', 'e5', 'x_y_z']


def gen_string(r: random.Random, allow: dict, feats: set) -> str:
	x = r.random()
	body_chars = 'ab z01#,()[]{}:=+-'
	def body(n: int, q: str) -> str:
		out = []
		for _ in range(n):
			y = r.random()
			if y < 0.08:
				out.append('\\' + q[0])
				feats.add('str:escaped-quote')
			elif y < 0.14:
				out.append(r.choice(['\\n', '\\t']))
				feats.add('str:escape')
			elif y < 0.17 and allow.get('escaped_backslash', True):
				out.append('\\\\')
				feats.add('str:escaped-backslash')
			elif y < 0.22:
				out.append('"' if q[0] == "'" else "'")
				feats.add('str:other-quote')
			else:
				out.append(r.choice(body_chars))
		return ''.join(out)
	if x < 0.35:
		feats.add('str:single')
		return "'" + body(r.randint(0, 6), "'") + "'"
	if x < 0.7:
		feats.add('str:double')
		return '"' + body(r.randint(0, 6), '"') + '"'
	if x < 0.8:
		feats.add('str:raw')
		q = r.choice('\'"')
		# in a raw string a backslash still keeps the following quote from ending the token (r'a\'b' is one token)
		other = '"' if q == "'" else "'"
		parts = ''.join(r.choice(['a', 'b', '\\d', '+', ' ', '.', '\\' + q, '\\' + q, other, '\\\\']) for _ in range(r.randint(0, 5)))
		return 'r' + q + parts + q
	if x < 0.93:
		feats.add('str:triple-double')
		inner = body(r.randint(0, 8), '"').replace('"""', '')
		if r.random() < 0.4:
			inner = inner + '\n' + body(r.randint(0, 5), '"') + r.choice(['', '\n\t  x'])
			feats.add('str:multiline')
		if inner.endswith('"') or inner.endswith('\\'):
			inner += ' '
		return '"""' + inner + '"""'
	if allow.get('triple_single', True):
		feats.add('str:triple-single')
		inner = ''.join(r.choice('ab z"') for _ in range(r.randint(0, 5)))
		return "'''" + inner + "'''"
	feats.add('str:single')
	return "'q'"


def gen_atom(r: random.Random, allow: dict, feats: set) -> tuple[str, str]:
	x = r.random()
	if x < 0.45:
		return ('name', r.choice(NAMES))
	if x < 0.6:
		return ('num', r.choice(['0', '1', '42', '1000', '3.5', '0.25', '10.', '7']))
	return ('str', gen_string(r, allow, feats))


def gen_tokens(r: random.Random, n: int, depth: int, allow: dict, feats: set) -> list[tuple[str, str]]:
	"""tokens of one logical line: (kind, text); kinds: name num str op minus-unary minus-binary open close nl(optional line break inside brackets)"""
	out: list[tuple[str, str]] = []
	for _ in range(n):
		x = r.random()
		if x < 0.45:
			out.append(gen_atom(r, allow, feats))
		elif x < 0.7:
			y = r.random()
			if y < 0.12:
				out.append((r.choice(['minus-unary', 'minus-binary']), '-'))
				feats.add('op:-')
			else:
				op = r.choice(SINGLE_OPS + COMBINED_OPS)
				out.append(('op', op))
				feats.add('op:' + op)
		elif depth > 0:
			o, c = r.choice(BRACKETS)
			feats.add('bracket:' + o)
			inner = gen_tokens(r, r.randint(0, 5), depth - 1, allow, feats)
			if inner and r.random() < 0.4:
				# line breaks inside the bracket (arbitrary positions)
				k = r.randrange(len(inner) + 1)
				inner.insert(k, ('nl', ''))
				if r.random() < 0.5:
					inner.append(('nl', ''))
				feats.add('bracket:multiline')
			out.append(('open', o))
			out.extend(inner)
			out.append(('close', c))
		else:
			out.append(gen_atom(r, allow, feats))
	return out


def gen_block(r: random.Random, depth: int, allow: dict, feats: set) -> list:
	"""A block is a list of statements; a statement is {'tokens': [...], 'body': block | None}"""
	stmts = []
	for _ in range(r.randint(1, 4)):
		toks = gen_tokens(r, r.randint(1, 7), 2, allow, feats)
		# a logical line must not be empty and must not start with a line break marker
		toks = [t for i, t in enumerate(toks) if not (t[0] == 'nl' and i == 0)] or [('name', 'x')]
		body = None
		if depth > 0 and r.random() < 0.45:
			toks.append(('op', ':'))
			body = gen_block(r, depth - 1, allow, feats)
			feats.add('block')
		stmts.append({'tokens': toks, 'body': body})
	return stmts


WORDY = {'name', 'num', 'str'}


def need_space(a: tuple[str, str], b: tuple[str, str]) -> bool:
	ka, kb = a[0], b[0]
	if ka in WORDY and kb in WORDY:
		return True
	opish = {'op', 'minus-unary', 'minus-binary'}
	if ka in opish and kb in opish:
		return True
	if ka == 'num' and kb == 'op' and b[1].startswith('.'):
		return True
	if ka == 'op' and a[1].endswith('.') and kb == 'num':
		return True
	if ka == 'minus-binary':
		return True
	return False


def render_line(r: random.Random, toks: list[tuple[str, str]], style: dict, cont_indent: str) -> str:
	parts: list[str] = []
	prev = None
	for t in toks:
		if t[0] == 'nl':
			comment = ''
			if style['comments'] and r.random() < 0.3:
				comment = '  # in (bracket] "x'
			parts.append(comment + '\n' + (r.choice(['', ' ', '\t', '        ', cont_indent]) if style['vary_continuation'] else cont_indent))
			if style['blank'] and r.random() < 0.2:
				parts.append('\n' + cont_indent)
			prev = None
			continue
		if prev is not None:
			if prev[0] == 'minus-unary':
				sep = ''
			elif need_space(prev, t):
				sep = ' '
			elif style['loose'] and (prev[0] == 'op' or t[0] == 'op'):
				sep = r.choice([' ', ' ', '  '])
			elif style['loose_brackets'] and (prev[0] in ('open',) or t[0] in ('close', 'open')):
				sep = r.choice(['', ' '])
			else:
				sep = ''
			parts.append(sep)
		parts.append(t[1])
		prev = t
	return ''.join(parts)


def render(r: random.Random, block: list, style: dict, level: int = 0) -> str:
	unit = style['unit']
	lines: list[str] = []
	ind = unit * level
	for st in block:
		if style['comments'] and r.random() < 0.25:
			ci = r.choice([ind, '', unit * (level + 1), ind + ' ']) if unit != '\t' else r.choice([ind, '', unit * (level + 1)])
			lines.append(ci + r.choice(['# comment', '#', '# "quote\' ( [ {', '#: x = 1']))
		if style['blank'] and r.random() < 0.25:
			lines.append(r.choice(['', '', ind, '   ' if unit != '\t' else '\t']))
		text = ind + render_line(r, st['tokens'], style, ind + (unit if unit != '\t' else '\t'))
		if style['comments'] and r.random() < 0.3:
			text += r.choice(['  # tail', ' #x', '# "a']) if text[-1:] not in '"\'' else '  # tail'
		if style['trailing'] and r.random() < 0.3:
			text += r.choice([' ', '  ', '\t'])
		lines.append(text)
		if st['body'] is not None:
			lines.append(render(r, st['body'], style, level + 1))
	return '\n'.join(lines)


def styles(r: random.Random) -> list[dict]:
	base = {'unit': '\t', 'comments': False, 'blank': False, 'trailing': False, 'loose': False, 'loose_brackets': False, 'vary_continuation': False, 'final_newline': True}
	out = [dict(base)]
	for _ in range(4):
		out.append({
			'unit': r.choice(['\t', ' ', '  ', '   ', '    ', '     ', '      ', '       ', '        ']),
			'comments': r.random() < 0.7, 'blank': r.random() < 0.6, 'trailing': r.random() < 0.5,
			'loose': r.random() < 0.6, 'loose_brackets': r.random() < 0.5, 'vary_continuation': r.random() < 0.5,
			'final_newline': r.random() < 0.7,
		})
	return out


# ---------------------------------------------------------------------------- oracle

def cpython_tokens(source: str) -> list[str] | None:
	out = []
	try:
		for t in pytokenize.generate_tokens(io.StringIO(source).readline):
			if t.type in (pytoken.NL, pytoken.COMMENT, pytoken.ENCODING, pytoken.ENDMARKER):
				continue
			if t.type == pytoken.NEWLINE:
				out.append('\n')
			elif t.type == pytoken.INDENT:
				out.append('\\INDENT')
			elif t.type == pytoken.DEDENT:
				out.append('\\DEDENT')
			elif t.type in (pytoken.NAME, pytoken.NUMBER, pytoken.STRING, pytoken.OP):
				out.append(t.string)
			else:
				return None  # f-string parts, error tokens: outside the subset
	except (pytokenize.TokenError, IndentationError, SyntaxError):
		return None
	return out


def tranp_tokens(source: str) -> list[str]:
	from rogw.tranp.implements.syntax.tranp.tokenizer import Tokenizer
	from rogw.tranp.implements.syntax.tranp.token import SpecialSymbols
	out = []
	for t in Tokenizer().parse(source):
		s = t.string
		out.append('-' if s == SpecialSymbols.OpUnaryMinus.value else s)
	return out


_REUSED = []


def reused_tokens(source: str) -> list[str]:
	from rogw.tranp.implements.syntax.tranp.tokenizer import Tokenizer
	from rogw.tranp.implements.syntax.tranp.token import SpecialSymbols
	if not _REUSED:
		_REUSED.append(Tokenizer())
	return ['-' if t.string == SpecialSymbols.OpUnaryMinus.value else t.string for t in _REUSED[0].parse(source)]


def raw_laws(source: str) -> tuple[str, str] | None:
	from rogw.tranp.implements.syntax.tranp.tokenizer import Lexer
	from rogw.tranp.implements.syntax.tranp.token import TokenDefinition, SpecialSymbols
	raw = Lexer(TokenDefinition()).parse_impl(source)
	text = ''.join('-' if t.string == SpecialSymbols.OpUnaryMinus.value else t.string for t in raw)
	if text != source:
		i = next((k for k in range(min(len(text), len(source))) if text[k] != source[k]), min(len(text), len(source)))
		return 'concat', f'concatenated raw tokens differ from the source at offset {i}: {text[max(0, i - 10):i + 15]!r} vs {source[max(0, i - 10):i + 15]!r}'
	starts = [0]
	for i, ch in enumerate(source):
		if ch == '\n':
			starts.append(i + 1)
	for t in raw:
		sm = t.source_map
		try:
			b = starts[sm.begin_line] + sm.begin_column
			e = starts[sm.end_line] + sm.end_column
		except IndexError:
			return 'span', f'token {t!r} has a span outside the text'
		want = '-' if t.string == SpecialSymbols.OpUnaryMinus.value else t.string
		if source[b:e] != want:
			return 'span', f'token {t!r}: span addresses {source[b:e]!r}'
	return None


def check_program(acc: Acc, case: dict) -> None:
	texts = case['texts']
	feats = case['features']
	nontrivial = any(f.startswith(('block', 'bracket', 'str:')) for f in feats)
	ref: list[str] | None = None
	ref_text = None
	for k, text in enumerate(texts):
		one = {'texts': [text], 'features': feats}
		py = cpython_tokens(text)
		if py is None:
			acc.case(sig_of(text), None, nontrivial)
			acc.inconc('rejected by CPython tokenize (outside the subset)', text[:200])
			continue
		try:
			tr = tranp_tokens(text)
		except Exception as e:  # noqa
			acc.case(sig_of(text), None, nontrivial)
			acc.violation('tokens/raise', f'Tokenizer().parse raised {type(e).__name__}: {e}', one)
			continue
		acc.see('law', 'tokens-vs-cpython')
		# one long-lived Tokenizer reads every text of the process (SyntaxParser keeps one): what an earlier text left behind - its
		# indentation unit, an open bracket level - must not show in a later one
		try:
			reused = reused_tokens(text)
		except Exception as e:  # noqa
			reused = ['raise:' + type(e).__name__]
		acc.see('law', 'long-lived-tokenizer')
		if reused != tr:
			i = next((j for j in range(min(len(tr), len(reused))) if tr[j] != reused[j]), min(len(tr), len(reused)))
			acc.violation('tokens/history-dependent', f'token #{i}: a fresh Tokenizer {tr[max(0, i - 2):i + 3]!r} vs the long-lived one {reused[max(0, i - 2):i + 3]!r}', one)
		if tr != py:
			i = next((j for j in range(min(len(tr), len(py))) if tr[j] != py[j]), min(len(tr), len(py)))
			acc.violation('tokens/differ', f'token #{i}: tranp {tr[max(0, i - 2):i + 3]!r} vs cpython {py[max(0, i - 2):i + 3]!r}', one)
		if tr.count('\\INDENT') != tr.count('\\DEDENT'):
			acc.violation('tokens/indent-balance', f'{tr.count(chr(92) + "INDENT")} indents vs {tr.count(chr(92) + "DEDENT")} dedents', one)
		acc.see('law', 'indent-balance')
		try:
			res = raw_laws(text)
		except Exception as e:  # noqa
			res = ('raise', f'Lexer.parse_impl raised {type(e).__name__}: {e}')
		acc.see('law', 'concat+span')
		if res is not None:
			acc.violation('raw/' + res[0], res[1], one)
		if ref is None:
			ref, ref_text = tr, text
		else:
			acc.see('law', 'layout-invariance')
			if tr != ref:
				i = next((j for j in range(min(len(tr), len(ref))) if tr[j] != ref[j]), min(len(tr), len(ref)))
				acc.violation('layout/differ', f'token #{i}: {tr[max(0, i - 2):i + 3]!r} vs {ref[max(0, i - 2):i + 3]!r} under another layout', {'texts': [ref_text, text], 'features': feats})
		acc.case(sig_of(text), {'text': text[:300], 'tokens': len(tr)} if k == 1 else None, nontrivial)
	for f in feats:
		acc.see('feature', f)


def gen_case(r: random.Random, allow: dict) -> dict:
	feats: set[str] = set()
	block = gen_block(r, r.choice([0, 1, 2, 3, 4, 6]), allow, feats)
	seed = r.getrandbits(32)
	texts = []
	for k, st in enumerate(styles(r)):
		rr = random.Random(seed + k)
		t = render(rr, block, st)
		if st['final_newline']:
			t += '\n'
		texts.append(t)
		feats.add('unit:' + repr(st['unit']))
	return {'texts': texts, 'features': sorted(feats)}


def classify(v: dict) -> str | None:
	return None


ALLOW = {'escaped_backslash': True, 'triple_single': True}


# witnesses of the three tokenizer defects fixed in /repo (status=fixed in known_findings.json)
FIXED_WITNESSES = [
	{'texts': ["x = '''abc'''\n", "x='''abc'''  # c\n"], 'features': ['str:triple-single']},
	{'texts': ["if a:\n\tx = 'a\\\\'\n\ty = 'b'\nz\n", "if a:\n  x = 'a\\\\'  # t\n\n  y = 'b'\nz"], 'features': ['str:escaped-backslash', 'block']},
	{'texts': ['x -', 'x -\n'], 'features': ['op:-']},
]


def shard(ctx: Ctx, acc: Acc) -> None:
	if ctx.shard == 0:
		for w in FIXED_WITNESSES:
			check_program(acc, w)
	n = N_PROGRAMS[ctx.tier]
	for i in range(n):
		if not ctx.mine(i):
			continue
		if i % 16 == 0 and ctx.out_of_time():
			acc.truncated_by_budget = True
			break
		case = gen_case(ctx.rng('program', i), ALLOW)
		try:
			check_program(acc, case)
		except Exception as e:  # noqa
			acc.extra.setdefault('harness_errors', []).append(fmt_exc(e))
			return


def replay(ctx: Ctx, case: dict, acc: Acc) -> None:
	check_program(acc, case)
