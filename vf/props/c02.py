"""C02 — the node tree groups programs exactly as CPython parses them.

The real Entrypoint node tree (lark parse + node resolution) of generated and real modules is walked through the nodes'
own declared properties and mapped into a neutral tree language; CPython's ast of the same text is mapped into the same
language (including the node classification Python semantics dictates) and the two are compared.
"""
from __future__ import annotations

import ast
import random
import re

from vf.common import Acc, Ctx, sig_of, fmt_exc

LEVEL = 'exploration'
RULE = ('modules are generated from the productions of data/grammar.lark that are also Python (full precedence ladder, chains, calls with positional/keyword/*/** '
	'arguments, slices, literals, comprehensions, lambdas, ternaries, every simple and compound statement, decorated defs with typed/default/*/** parameters, classes with bases), '
	'expression depth <= 4, plus every module of the repository both parsers accept; one evaluation = one module; distinct = distinct text; '
	'non-trivial = the module holds an operator chain, a call/attribute/index chain or a compound statement')
ASSUMPTIONS = [
	'only structure the node model exposes is demanded: "@d()" and "@d" are the same decorator to the node model, the metaclass keyword of a class is not a node property',
	'what is valid in only one grammar (trailing comments, ** and //, walrus, starred assignment targets, Annotated/ClassVar/TypeAlias/TypeVar forms, else on loops, bare except, finally) is not generated',
	'classification is judged for defs directly in a class body, at module level and inside function bodies; method-looking defs outside a class body are not judged (Python has no such notion)',
	'a module on which node access itself raises an application error (e.g. an annotated attribute outside a constructor) is counted inconclusive, with samples in the evidence',
]
SHARDS = {'quick': 8, 'thorough': 16}
BUDGET_S = {'quick': 50, 'thorough': 560}
N_MODULES = {'quick': 4000, 'thorough': 60000}
MIN_OBS = {'compared': {'quick': 600, 'thorough': 8000}}

_SESSION = None


def session():
	global _SESSION
	if _SESSION is None:
		from vf.session import Session
		_SESSION = Session()
	return _SESSION


_DISK: dict = {}


def overwritten_file_session(previous: str, text: str):
	"""-> (a new application, module name): the module file was written with `previous`, loaded (and cached) by one application, overwritten
	with `text` (modification time a few milliseconds later) and is now met by a second application over the same cache directory."""
	import atexit
	import os
	import shutil
	import tempfile
	from rogw.tranp.app.env import SourceEnvPath
	from vf.session import Session
	if not _DISK:
		_DISK['dir'] = tempfile.mkdtemp(prefix='vf-c02-')
		_DISK['n'] = 0
		atexit.register(lambda: shutil.rmtree(_DISK['dir'], ignore_errors=True))
		os.makedirs(os.path.join(_DISK['dir'], 'src'))
	_DISK['n'] += 1
	src_dir = os.path.join(_DISK['dir'], 'src')
	name = f'vf02_ow{_DISK["n"]}'
	file = os.path.join(src_dir, name + '.py')
	t0 = 1_700_000_000.0 + 10 * _DISK['n']
	extra = {'rogw.tranp.app.env.SourceEnvPath': lambda: SourceEnvPath.instantiate([src_dir])}
	with open(file, 'w', encoding='utf-8', newline='') as f:
		f.write(previous)
	os.utime(file, (t0, t0))
	first = Session(cache_dir=os.path.join(_DISK['dir'], 'cache'), extra_definitions=extra)
	first.entrypoint(name)
	with open(file, 'w', encoding='utf-8', newline='') as f:
		f.write(text)
	dt = (0.004, 0.3, 0.75)[_DISK['n'] % 3]
	os.utime(file, (t0 + dt, t0 + dt))
	return Session(cache_dir=os.path.join(_DISK['dir'], 'cache'), extra_definitions=extra), name


def check_case(acc: Acc, case: dict) -> None:
	from rogw.tranp.errors import Errors
	from vf.oracle import nodecanon
	from vf.trees import read_module_text
	text = case['source'] if case['kind'] == 'source' else read_module_text(case['module'])
	feats = case.get('features', [])
	nontrivial = case['kind'] == 'module' or any(f.startswith(('bin:', 'cmp', 'bool:', 'call', 'getattr', 'index', 'slice', 'stmt:if', 'stmt:for', 'stmt:while', 'stmt:try', 'stmt:with', 'def:', 'stmt:class')) for f in feats)
	sample = {'kind': case['kind'], 'source': text[:240]} if case['kind'] == 'source' else {'kind': 'module', 'module': case['module']}
	try:
		py = nodecanon.from_python(text)
	except SyntaxError:
		acc.case(sig_of(text), None, nontrivial)
		acc.inconc('rejected by CPython', text[:200])
		return
	except nodecanon.Unmapped as e:
		acc.case(sig_of(text), None, nontrivial)
		acc.inconc('python tree outside the neutral form: ' + str(e), text[:200])
		return
	s = session()
	name = '__main__' if case['kind'] == 'source' else case['module']
	try:
		if case['kind'] == 'source' and case.get('previous') is not None:
			# the text stands in a module *file* that held another accepted text a few milliseconds ago (loaded and cached by another
			# application over the same cache directory): the tree is the tree of the text the file holds now
			s, name = overwritten_file_session(case['previous'], text)
			acc.see('compared', 'file overwritten after ' + ('the same text' if case['previous'] == text else 'another text'))
		elif case['kind'] == 'source':
			s.set_source('__main__', text)
		s.entrypoints.unload(name)
		ep = s.entrypoint(name)
	except Exception as e:  # noqa
		acc.case(sig_of(text), None, nontrivial)
		acc.inconc('rejected by tranp grammar: ' + type(e).__name__, (case.get('module') or text)[:200])
		return
	try:
		tr = nodecanon.from_nodes(ep)
	except nodecanon.Unmapped as e:
		acc.case(sig_of(text), None, nontrivial)
		if case['kind'] == 'module':
			acc.inconc('node tree outside the neutral form: ' + str(e).split(' tag=')[0], case['module'])
		else:
			acc.violation('tree/unmappable', f'{e} in generated module:\n{text[:600]}', case)
		return
	except Errors.Error as e:
		acc.case(sig_of(text), None, nontrivial)
		acc.inconc('node access raises ' + type(e).__name__, {'text': text[:300], 'error': str(e)[:200]})
		return
	except RecursionError:
		acc.case(sig_of(text), None, nontrivial)
		acc.inconc('recursion limit', text[:100])
		return
	except Exception as e:  # noqa
		acc.case(sig_of(text), None, nontrivial)
		acc.violation('tree/crash', f'{type(e).__name__}: {e} while walking the node tree of:\n{text[:600]}', case)
		return
	acc.see('compared', case['kind'])
	def count(form) -> None:
		if isinstance(form, tuple) and form and isinstance(form[0], str):
			acc.see('form', form[0])
			if form[0] == 'def':
				acc.see('def_kind', f'{form[1]}')
		if isinstance(form, (tuple, list)):
			for x in form:
				count(x)
	count(tr)
	d = nodecanon.first_diff(tr, py)
	if d is not None:
		acc.violation('tree/differs', f'tranp vs CPython at {d}\n--- source\n{text[:700]}', case)
	acc.case(sig_of(text), sample, nontrivial)
	for f in feats:
		acc.see('feature', f)


def classify(v: dict) -> str | None:
	"""Open finding 'chained-assignment-last-operand-unreachable': `a = b = c` – MoveAssign exposes receivers [a] and value b; c is not
	reachable from the node. Matched only when the differing statement is an assignment with more than one target group on the CPython side."""
	d = v['detail']
	first = d.split('\n')[0]
	if v['kind'] == 'tree/differs' and "/assign[1]: length 1 vs" in first:
		return 'chained-assignment-last-operand-unreachable'
	# 'with (a, b):' – the only with-item is a parenthesised tuple without `as`: tranp has ONE item whose expression is a tuple, CPython has the tuple's elements as items
	# 'self.a, self.b = ...' in a constructor: CPython binds both, tranp marks only the first as a declaration
	m2 = re.search(r"/assign\[1\]/\[0\]/\[(\d+)\]: length 3 vs 2: \('attr', \('name', 'self'\), '\w+'\) vs \('decl', \('attr', \('name', 'self'\)", first)
	if v['kind'] == 'tree/differs' and m2 and int(m2.group(1)) >= 1 and '/def[6]/' in first:
		return 'destructured-self-attribute-not-a-declaration'
	m = re.search(r"/with\[1\](/\[0\]/\[0\]: length 2 vs|: length 1 vs \d+:)", first)
	if v['kind'] == 'tree/differs' and m and re.search(r'^\s*with \(.*\):\s*$', d, re.M) and "('tuple'," in first:
		return 'parenthesised-with-items-read-as-tuple'
	return None


SPECIAL = [
	# defs below control flow in a class body are methods / constructors / class methods like those directly in the body
	'class A:\n\tif X:\n\t\tdef f(self) -> None:\n\t\t\tpass\n\t\tdef __init__(self) -> None:\n\t\t\tself.a = 1\n\telse:\n\t\tdef f(self, a: int) -> None:\n\t\t\tpass\n\ttry:\n\t\t@classmethod\n\t\tdef make(cls) -> None:\n\t\t\tpass\n\texcept E as e:\n\t\tdef g(self) -> None:\n\t\t\tpass\n\twith ctx as c:\n\t\tdef h(self) -> None:\n\t\t\tdef inner() -> None:\n\t\t\t\tpass\n\tfor i in xs:\n\t\tdef k(self) -> None:\n\t\t\tpass\n\twhile X:\n\t\tdef w(a: int) -> int:\n\t\t\treturn a\n',
	'class A:\n\tdef f(cls, a: int) -> int:\n\t\treturn a\n\t@classmethod\n\tdef make(klass) -> None:\n\t\tpass\n\t@staticmethod\n\tdef g(cls) -> None:\n\t\tpass\n\tdef h(this) -> None:\n\t\tpass\ndef k(cls) -> None:\n\tpass\n',
	'x = a - (b + c)\ny = a - (b - c)\nz = a or (b or c)\nw = a | (b | c)\nv = a and (b and c)\nu = (a - b) - c\nt = a ^ (b ^ c)\ns = a & (b & c)\n',
	'with lock:\n\tpass\nwith a as b:\n\tpass\nwith open(p) as f, guard:\n\tpass\nwith self:\n\tpass\n',
	'class A(object):\n\tpass\nclass B(Base, object):\n\tpass\nclass C(Generic[T], Base):\n\tpass\ndef f() -> None:\n\tclass D(object):\n\t\tpass\n',
	'x = 1e5\ny = 2E10\nz = 1e-3\nw = 1.5e3\nv = 5.\nu = .25\nt = 0x1F\ns = 1_000\n',
	'x = a & b ^ c\ny = a ^ b & c\nz = a | b ^ c & d\nw = a ^ b | c\n',
	'def outer() -> None:\n\tclass Local:\n\t\tdef plain(a: int) -> int:\n\t\t\treturn a\n\t\tdef meth(self) -> None:\n\t\t\tpass\n\t\t@classmethod\n\t\tdef make(cls) -> None:\n\t\t\tpass\n',
	'class A:\n\tdef __init__(self) -> None:\n\t\tself.a = B()\n\t\tself.a.b = 1\n\t\tself.a.b.c = 2\n\t\tother.x = 3\n\tdef m(self) -> None:\n\t\tself.a = 1\n\t\tself.a.b = 2\n',
	'x = a / b * c % d\n', 'x = a - b + c - d\n', 'x = a * b / c * d\n',
	'x = a if b else c if d else e\n', 'x = not a == b\n', 'x = a < b < c\n', 'x = a | b & c ^ d << 1 + 2 * -3\n', 'x = -a if False else 1\n',
	'f(a, k=1, *b, **c)\n', 'x = a.b[1:2].c(d)[::2]\n', 'x = [i for i in y if i]\n', 'x = {k: v for k, v in y}\n', 'x = lambda a, b: a + b\n',
	'class A(B, C):\n\tdef __init__(self, x: int = 1) -> None:\n\t\tself.x = x\n\t\tself.y: int = 2\n\t@classmethod\n\tdef make(cls) -> "A":\n\t\treturn cls()\n\tdef get(self) -> int:\n\t\tdef inner() -> int:\n\t\t\treturn self.x\n\t\treturn inner()\n\tdef plain() -> None:\n\t\tpass\n',
	'if a:\n\tpass\nelif b:\n\tpass\nelif c:\n\tpass\nelse:\n\tpass\n',
	'try:\n\tpass\nexcept A as e:\n\traise B(1) from e\nexcept C:\n\tpass\n',
	'with a as b, c:\n\tpass\n', 'for i, j in x:\n\tcontinue\n', 'x, y = 1, 2\n', 'del a, b[0]\n', 'assert a, "m"\n', 'from a.b import (c as d, e)\n',
	'class A:\n\tdef __init__(self, selfy: B) -> None:\n\t\tselfy.x = 1\n\t\tself.y = 2\n\t\tif selfy:\n\t\t\tself.z = 3\n',
	'@deco(1, k=2)\n@other\ndef f(a, b: int = 2, *args: int, **kw: str) -> list[int] | None:\n\tyield a\n',
]

# blocks with more than 10 and more than 100 children of one tag: sibling indices of two and three digits in every path the declaration /
# classification matchers read (seeded C02/13: an index-stripping fast path that handled one or two digits only)
SPECIAL += [
	'def f() -> None:\n' + ''.join(f'\tv{i} = {i}\n' for i in range(104)) + '\tprint(v0, v103)\n',
	''.join(f'g{i} = {i}\n' for i in range(103)) + 'def tail() -> None:\n\tw = g102\n',
	'class Wide:\n' + ''.join(f'\tdef m{i}(self) -> None:\n\t\tx{i} = {i}\n' for i in range(101)) + '\t@classmethod\n\tdef make(cls) -> None:\n\t\ty = 1\n\tdef __init__(self) -> None:\n\t\tself.a = 1\n\t\tb = 2\n',
	'def f(a: int) -> None:\n' + ''.join(f'\tfor i{i} in a:\n\t\tj{i} = i{i}\n' for i in range(12)) + ''.join(f'\twith a as k{i}:\n\t\tpass\n' for i in range(12)),
]

WITNESS_CHAIN = 'a = b = c\n'
WITNESS_WITH = 'with (a, b):\n\tpass\n'
WITNESS_SELF_DESTRUCTURE = 'class A:\n\tdef __init__(self) -> None:\n\t\tself.a, self.b = 1, 2\n'


def shard(ctx: Ctx, acc: Acc) -> None:
	from vf.gen.syntactic import SynGen
	from vf.trees import real_module_paths
	n = N_MODULES[ctx.tier]
	real = real_module_paths()
	if ctx.shard == 0:
		# some of the fixed sources once more as module files that held the previous fixed source a moment ago
		for i in range(1, len(SPECIAL), 4):
			check_case(acc, {'kind': 'source', 'source': SPECIAL[i], 'previous': SPECIAL[i - 1], 'features': ['stmt:class']})
		for i, text in enumerate(SPECIAL):
			check_case(acc, {'kind': 'source', 'source': text, 'features': ['stmt:if']})
		check_case(acc, {'kind': 'source', 'source': WITNESS_CHAIN, 'features': ['assign-chain']})
		check_case(acc, {'kind': 'source', 'source': WITNESS_WITH, 'features': ['stmt:with']})
		check_case(acc, {'kind': 'source', 'source': WITNESS_SELF_DESTRUCTURE, 'features': ['assign-destructure']})
	for i in range(n):
		if not ctx.mine(i):
			continue
		if ctx.out_of_time():
			acc.truncated_by_budget = True
			break
		r = ctx.rng('module', i)
		if i % 10 < 9:
			# chained assignment is switched off in the random generator: it is the construct of the open finding (its witness runs every time)
			g = SynGen(r, max_depth=r.choice([1, 2, 3, 4]), opts={'chain_assign': False})
			case = {'kind': 'source', 'source': g.module(), 'features': sorted(g.f)}
		else:
			case = {'kind': 'module', 'module': real[(i // 10) % len(real)]}
		try:
			check_case(acc, case)
		except Exception as e:  # noqa
			acc.extra.setdefault('harness_errors', []).append(fmt_exc(e) + repr(case)[:600])
			return


def replay(ctx: Ctx, case: dict, acc: Acc) -> None:
	check_case(acc, case)
