"""C08 — consistent renaming of user identifiers commutes with transpilation.

Metamorphic pairs: a generated program P and r(P) for adversarial injective renamings r are both transpiled by the real Py2Cpp;
the harness applies r textually to the first output (whole identifiers, string literals untouched) and compares byte for byte;
symbol-table keys and type descriptions are compared likewise.
"""
from __future__ import annotations

import ast
import io
import keyword
import random
import re
import tokenize

from vf.common import Acc, Ctx, sig_of, fmt_exc

LEVEL = 'exploration'
RULE = ('programs from vf.gen.typed (classes, nested scopes, closures, comprehensions, same names in sibling scopes); 7 renamings per program: unique infix, prefix-related names '
	'(a, ab, a_b), double underscores / trailing __init__, names starting with self/cls/super, names containing grammar tag names, single letters, 60-character names, reversed lexical order; '
	'one evaluation = one (program, renaming) pair; distinct = distinct renamed text; non-trivial = at least 5 identifiers renamed')
ASSUMPTIONS = [
	'string literals of the programs never equal an identifier token inside quotes being compared: replacement in the output skips string literals; enum .name (which turns an identifier into a literal) is not generated here',
	'new names are never Python keywords/builtins, names of the stub library, self/cls/super, Enum attribute names, C-variable verbs, dunders or C++ keywords; the leading-underscore class of a name (its accessor) is preserved',
]
SHARDS = {'quick': 8, 'thorough': 16}
BUDGET_S = {'quick': 32, 'thorough': 560}
N_PROGRAMS = {'quick': 72, 'thorough': 2000}
MIN_OBS = {'pairs_compared': {'quick': 80, 'thorough': 1500}}

RESERVED = set(keyword.kwlist) | set(dir(__builtins__)) | {'self', 'cls', 'super', 'name', 'value', 'on', 'raw', 'ref', 'addr', 'const', 'new', 'empty', 'copy', 'move', 'down', 'as_a', 'Embed', 'Enum', 'Callable',
	'append', 'insert', 'pop', 'items', 'values', 'keys', 'get', 'startswith', 'endswith', 'extend', 'clear', 'find', 'enum', 'collections', 'abc', 'err',
	'int', 'float', 'bool', 'str', 'list', 'dict', 'tuple', 'double', 'char', 'auto', 'class', 'struct', 'union', 'template', 'typename', 'this', 'delete', 'operator', 'public', 'private', 'protected',
	'virtual', 'static', 'void', 'long', 'short', 'signed', 'unsigned', 'switch', 'case', 'default', 'do', 'goto', 'namespace', 'using', 'friend', 'inline', 'register', 'volatile', 'mutable', 'explicit', 'export', 'extern', 'sizeof', 'typedef', 'std', 'main'}

_SESSION = None


def session():
	global _SESSION
	if _SESSION is None:
		from vf.session import Session
		_SESSION = Session()
	return _SESSION


def user_names(source: str) -> list[str]:
	"""Identifiers the program itself binds (functions, classes, parameters except self/cls, locals, fields, methods, enum members)."""
	tree = ast.parse(source)
	names: set[str] = set()
	for n in ast.walk(tree):
		if isinstance(n, (ast.FunctionDef, ast.ClassDef)):
			if not (n.name.startswith('__') and n.name.endswith('__')):
				names.add(n.name)
		if isinstance(n, ast.arg) and n.arg not in ('self', 'cls'):
			names.add(n.arg)
		if isinstance(n, ast.Name) and isinstance(n.ctx, ast.Store):
			names.add(n.id)
		if isinstance(n, ast.AnnAssign) and isinstance(n.target, ast.Name):
			names.add(n.target.id)
		if isinstance(n, ast.Attribute) and isinstance(n.ctx, ast.Store) and isinstance(n.value, ast.Name) and n.value.id == 'self':
			names.add(n.attr)
		if isinstance(n, ast.ExceptHandler) and n.name:
			names.add(n.name)
	return sorted(x for x in names if x not in RESERVED)


def rename_source(source: str, mapping: dict[str, str]) -> str:
	class_names = {n.name for n in ast.walk(ast.parse(source)) if isinstance(n, ast.ClassDef)}
	out = []
	for t in tokenize.generate_tokens(io.StringIO(source).readline):
		out.append((t.type, mapping.get(t.string, t.string) if t.type == tokenize.NAME else t.string, t.start, t.end, t.line))
	# rebuild preserving layout: walk the original text and substitute NAME tokens by position
	lines = source.split('\n')
	starts = [0]
	for l in lines:
		starts.append(starts[-1] + len(l) + 1)
	pieces = []
	pos = 0
	for typ, new, start, end, _ in out:
		if typ == tokenize.STRING and len(new) > 2 and new[1:-1] in mapping and new[1:-1] in class_names:
			new = new[0] + mapping[new[1:-1]] + new[-1]  # quoted forward reference to a class in an annotation:  -> 'Box'
		elif typ != tokenize.NAME:
			continue
		b, e = starts[start[0] - 1] + start[1], starts[end[0] - 1] + end[1]
		pieces.append(source[pos:b])
		pieces.append(new)
		pos = e
	pieces.append(source[pos:])
	return ''.join(pieces)


RE_CPP_TOKEN = re.compile(r'"(?:\\.|[^"\\])*"|\'(?:\\.|[^\'\\])*\'|[A-Za-z_][A-Za-z_0-9]*|.', re.S)


def rename_output(text: str, mapping: dict[str, str]) -> str:
	def sub(m: re.Match) -> str:
		tok = m.group(0)
		if tok[0] in '"\'':
			return tok
		return mapping.get(tok, tok)
	return RE_CPP_TOKEN.sub(sub, text)


def rename_plain(text: str, mapping: dict[str, str]) -> str:
	return re.sub(r'[A-Za-z_][A-Za-z_0-9]*', lambda m: mapping.get(m.group(0), m.group(0)), text)


def make_renamings(r: random.Random, names: list[str]) -> list[tuple[str, dict[str, str]]]:
	def ok(m: dict[str, str]) -> bool:
		vals = list(m.values())
		return len(set(vals)) == len(vals) and not (set(vals) & RESERVED) and not (set(vals) & set(names) - {v for k, v in m.items() if k == v}) and all(v.isidentifier() for v in vals)
	out = []
	def add(label: str, m: dict[str, str]) -> None:
		# a renaming keeps the access class a name spells: __private stays __private, _protected stays _protected, public stays public
		# (a name that starts AND ends with two underscores is a public 'dunder' name: a private name never gets such a spelling)
		m = {k: ('__' + v.lstrip('_') if k.startswith('__') else '_' + v.lstrip('_') if k.startswith('_') else v) for k, v in m.items()}
		m = {k: (v + 'z' if k.startswith('__') and v.endswith('__') else v) for k, v in m.items()}
		if ok(m):
			out.append((label, m))
	add('infix', {n: f'{n}_vq7' for n in names})
	# prefix / suffix related names
	pool = ['zq', 'zqa', 'zq_a', 'zqab', 'zqa_', 'azq', 'zq_ab', 'zqb', 'zq__a', 'zq1', 'zq_1', 'zq11', 'a_zq', 'zqaa', 'zqaaa', 'zq_', 'zq__', 'zqz', 'zqzq', 'zq_zq', 'zq2', 'zq22', 'zq_2', 'zq3', 'zq33', 'zq_3', 'zqc', 'zqcc', 'zq_c', 'zqd', 'zqdd', 'zq_d']
	while len(pool) < len(names):
		pool.append(f'zq{len(pool)}x')
	shuffled = pool[:]
	r.shuffle(shuffled)
	add('prefix-related', dict(zip(names, shuffled)))
	# every name a proper suffix (resp. prefix) of the next one, in both orders of the identifiers
	for label, order in (('suffix-chain', names), ('suffix-chain-reversed', names[::-1])):
		m: dict[str, str] = {}
		cur = 'zq'
		for i, n in enumerate(order):
			cur = f'{"abcdefghij"[i % 10]}{i % 7}_' + cur if i else cur
			m[n] = cur
		if max(len(v) for v in m.values()) < 200:
			add(label, m)
			add(label.replace('suffix', 'prefix'), {k: v[::-1] if not v[::-1][0].isdigit() else 'p' + v[::-1] for k, v in m.items()})
	# private / protected names with further double underscores inside and at the end
	add('inner-dunder', {n: (f'{n}__key' if i % 2 else f'{n}__x__y') if n.startswith('_') else f'{n}_k' for i, n in enumerate(names)})
	# user names that end (or begin) with a word tranp gives a meaning to when it stands alone
	words = ['Generic', 'Enum', 'Callable', 'object', 'None', 'self', 'cls', 'super', 'ClassVar', 'TypeVar', 'property', 'classmethod', 'Exception', 'list', 'dict', 'str', 'int']
	add('all-generic-suffix', {n: f'{n}Generic' for n in names})
	add('reserved-suffix', {n: f'{n}{words[i % len(words)]}' for i, n in enumerate(names)})
	add('reserved-prefix', {n: f'{words[(i + 3) % len(words)]}{n}' if not n.startswith('_') else f'{n}{words[i % len(words)]}' for i, n in enumerate(names)})
	add('double-underscore', {n: (f'zq__{n}' if i % 2 else f'{n}__init__') for i, n in enumerate(names)})
	add('self-cls-super', {n: ['self', 'cls', 'super', 'selfself'][i % 4] + n for i, n in enumerate(names)})
	tags = ['name', 'var', 'block', 'class_def', 'function_def', 'getattr', 'funccall', 'assign', 'file_input', 'typedparam']
	add('grammar-tags', {n: f'{tags[i % len(tags)]}_{n}' if i % 2 else f'{n}_{tags[i % len(tags)]}' for i, n in enumerate(names)})
	letters = [c for c in 'ABCDEFGHIJKLMNOPQRSTUVWXYZabcdefghijklmnopqrstuvwxyz' if c not in RESERVED]
	r.shuffle(letters)
	if len(names) <= len(letters):
		add('single-letters', dict(zip(names, letters)))
	add('long', {n: n + '_' + 'x' * 52 + f'{i:03d}' for i, n in enumerate(names)})
	add('reverse-order', {n: f'zq{len(names) - i:03d}w' for i, n in enumerate(sorted(names))})
	add('case', {n: ('Zq' + n.upper() if i % 2 else 'zQ' + n.lower()) for i, n in enumerate(names)})
	return out


def symbols_of(s, module: str) -> list[tuple[str, str]]:
	from vf.props.c14 import describe
	return sorted((k, str(describe(sym))) for k, sym in s.db.items(module))


def check_program(acc: Acc, case: dict, r: random.Random) -> None:
	from rogw.tranp.errors import Errors
	s = session()
	src = case['source']
	names = user_names(src)
	try:
		s.reload('__main__', src)
		out1 = s.transpile('__main__')
		sym1 = symbols_of(s, '__main__')
	except Errors.Error as e:
		acc.case(None)
		acc.inconc('original program rejected: ' + type(e).__name__, str(e)[:200])
		return
	renamings = case.get('renamings') or make_renamings(r, names)
	for label, mapping in renamings:
		src2 = rename_source(src, mapping)
		one = dict(case, renamings=[[label, mapping]])
		acc.see('renaming', label)
		try:
			ast.parse(src2)
		except SyntaxError:
			acc.case(None)
			acc.inconc('renamed text is not Python (harness)', label)
			continue
		try:
			s.reload('__main__', src2)
			out2 = s.transpile('__main__')
			sym2 = symbols_of(s, '__main__')
		except Errors.Error as e:
			acc.case(sig_of(src2), None, len(names) >= 5)
			acc.violation('renamed-program-rejected', f'[{label}] {type(e).__name__}: {str(e)[:300]}\nrenaming: {dict(list(mapping.items())[:12])}', one)
			continue
		except Exception as e:  # noqa
			acc.case(sig_of(src2), None, len(names) >= 5)
			acc.violation('renamed-program-crash', f'[{label}] {type(e).__name__}: {str(e)[:300]}', one)
			continue
		want = rename_output(out1, mapping)
		acc.see('pairs_compared', label)
		acc.case(sig_of(src2), {'renaming': label, 'identifiers': len(names), 'example': dict(list(mapping.items())[:4])} if label == 'prefix-related' else None, len(names) >= 5)
		if out2 != want:
			a, b = want.split('\n'), out2.split('\n')
			i = next((k for k in range(min(len(a), len(b))) if a[k] != b[k]), min(len(a), len(b)))
			acc.violation('output-differs', f'[{label}] line {i + 1}: expected {a[i] if i < len(a) else "<eof>"!r}, got {b[i] if i < len(b) else "<eof>"!r}\nrenaming: { {k: v for k, v in mapping.items() if k in (a[i] if i < len(a) else "") or v in (b[i] if i < len(b) else "")} }', one)
			continue
		want_sym = sorted((rename_plain(k, mapping), rename_plain(d, mapping)) for k, d in sym1)
		if want_sym != sym2:
			diff = next(((x, y) for x, y in zip(want_sym, sym2) if x != y), (len(want_sym), len(sym2)))
			acc.violation('symbols-differ', f'[{label}] {str(diff)[:500]}', one)


SPECIAL = '''from enum import Enum


class Kind(Enum):
	LOW = 1
	HIGH = 2


class Box:
	w: int
	label: str

	def __init__(self, w: int, label: str = 'd') -> None:
		self.w = w
		self.label = label

	def area(self, h: int) -> int:
		return self.w * h

	@property
	def twice(self) -> int:
		return self.w * 2


def note(n: int) -> None:
	pass


class Crate(Box):
	depth: int

	def __init__(self, w: int, depth: int, other: Box) -> None:
		super().__init__(w, 'c')
		self.depth = depth
		note(depth)
		other.w = depth

	def area(self, h: int) -> int:
		return self.w * h * self.depth


def helper(n: int) -> int:
	return n + 1


def run(n: int, flag: bool) -> int:
	b = Box(n)
	c = Crate(n, 2, b)
	total = 0
	for i in range(3):
		total += helper(i)
	vals = [v + 1 for v in [n, total]]
	def inner(k: int) -> int:
		return k + total
	if flag:
		n2 = Kind.LOW
		total = inner(b.twice)
	else:
		helper(total)
	return total + c.area(2) + len(vals)
'''


def classify(v: dict) -> str | None:
	return None


SPECIAL2 = '''from typing import ClassVar


limit: str = 'top'
scale: int = 2


class Box:
	limit: ClassVar[int] = 5
	scale: ClassVar[float] = 1.5
	__secret: int
	_shade: str
	plain: float

	def __init__(self) -> None:
		self.__secret = 1
		self._shade = 's'
		self.plain = 0.5

	def check(self) -> int:
		v = limit
		w = scale
		return len(v) + w

	def __calc(self) -> int:
		return self.__secret + 1

	def _hint(self) -> str:
		return self._shade

	def total(self) -> int:
		return self.__calc() + len(self._hint()) + Box.limit

	class __Hidden:
		pass

	class _Inner:
		pass


def use_box() -> int:
	b = Box()
	top = limit
	return b.total() + b.check() + len(top) + scale
'''


# Binding templates: ONE binding of the program (marked @X@) is spelled either like another, unrelated name of the same program or with a
# fresh name. A textual renaming cannot separate two bindings that share a spelling; here the separation is by construction:
# rename(fresh -> colliding)(transpile(P[fresh])) must equal transpile(P[colliding]).
TEMPLATES: list[tuple[str, str, str]] = [
	# (colliding spelling, fresh spelling, program)
	('Node', 'Vertex', '''class Tree:
	class Node:
		weight: int

		def __init__(self, weight: int) -> None:
			self.weight = weight

	nodes: list[Node]

	def __init__(self) -> None:
		self.nodes = []


class Graph:
	class @X@:
		degree: int

		def __init__(self, degree: int) -> None:
			self.degree = degree

	nodes: list[@X@]

	def __init__(self) -> None:
		self.nodes = []


def summary(tree: Tree, graph: Graph) -> int:
	tree_nodes = tree.nodes
	graph_nodes = graph.nodes
	first = Graph.@X@(2)
	return len(tree_nodes) + len(graph_nodes) + first.degree
'''),
	('value', 'entry', '''class Node:
	value: int

	def __init__(self, value: int) -> None:
		self.value = value


def collect(@X@: Node, scale: int) -> int:
	def scaled(offset: int) -> int:
		return @X@.value * scale + offset

	return scaled(1) + @X@.value
'''),
	('count', 'amount', '''from collections.abc import Callable


class Bag:
	count: int

	def __init__(self) -> None:
		self.count = 0

	def grow(self, @X@: int) -> int:
		self.count = self.count + @X@
		total = [self.count for i in range(@X@)]
		return len(total)


def count(n: int) -> int:
	return n + 1


def use(@X@: int) -> int:
	b = Bag()
	fn: Callable[[int], int] = lambda q: q + @X@ + b.count
	return b.grow(@X@) + fn(1)


def twice(n: int) -> int:
	return count(n) + count(n)
'''),
	('Box', 'Crate', '''class Box:
	n: int

	def __init__(self, n: int) -> None:
		self.n = n


def make(n: int) -> Box:
	class @X@:
		m: int

		def __init__(self, m: int) -> None:
			self.m = m

	inner = @X@(n)
	return Box(inner.m)
'''),
]
# a list-returning method of a user class spelled like a dict method; a type variable spelled without the conventional T
LEDGER = '''class Ledger:
	rows_: list[int]

	def __init__(self) -> None:
		self.rows_ = [1, 2]

	def @X@(self) -> list[int]:
		return self.rows_


def total(ledger: Ledger) -> int:
	t = 0
	for row in ledger.@X@():
		t = t + row
	doubled = [row2 * 2 for row2 in ledger.@X@()]
	return t + len(doubled)
'''
STACK = '''from typing import Generic, TypeVar

@X@ = TypeVar('@X@')


class Stack(Generic[@X@]):
	items: list[@X@]

	def __init__(self) -> None:
		self.items = []

	def push(self, item: @X@) -> None:
		self.items.append(item)

	def top(self) -> @X@:
		return self.items[0]


class IntStack(Stack[int]):
	def total(self) -> int:
		return self.top() + 1


def use(n: int) -> int:
	s = Stack[int]()
	s.push(n)
	return s.top()
'''
TEMPLATES += [('values', 'ledger_rows', LEDGER), ('items', 'ledger_rows', LEDGER), ('keys', 'ledger_rows', LEDGER),
	('Elem', 'T_Elem', STACK), ('K', 'T_Key', STACK), ('item_t', 'TItem', STACK)]


def check_template(acc: Acc, colliding: str, fresh: str, template: str) -> None:
	from rogw.tranp.errors import Errors
	s = session()
	case = {'kind': 'template', 'colliding': colliding, 'fresh': fresh, 'source': template}
	outs = {}
	for spelling in (colliding, fresh):
		try:
			s.reload('__main__', template.replace('@X@', spelling))
			outs[spelling] = s.transpile('__main__')
		except Errors.Error as e:
			acc.case(None)
			if spelling == colliding:
				# the colliding spelling may legitimately be refused (e.g. shadowing rules); the fresh one decides nothing alone
				acc.inconc('template refused with the colliding spelling: ' + type(e).__name__, str(e)[:200])
			else:
				acc.inconc('template refused with the fresh spelling: ' + type(e).__name__, str(e)[:200])
			return
	acc.see('binding_templates', f'{fresh}->{colliding}')
	back = re.sub(rf'\b{re.escape(fresh)}\b', colliding, outs[fresh])
	acc.case(sig_of(template), {'template': template[:200], 'colliding': colliding, 'fresh': fresh}, True)
	if back != outs[colliding]:
		a, b = back.split('\n'), outs[colliding].split('\n')
		i = next((j for j in range(min(len(a), len(b))) if a[j] != b[j]), min(len(a), len(b)))
		acc.violation('output-differs', f'[binding template {fresh} -> {colliding}] line {i + 1}: renamed output of the fresh spelling {a[i] if i < len(a) else "<eof>"!r}, output of the colliding spelling {b[i] if i < len(b) else "<eof>"!r}', case)


def shard(ctx: Ctx, acc: Acc) -> None:
	from vf.gen.typed import TypedGen
	n = N_PROGRAMS[ctx.tier]
	if ctx.shard == 0:
		check_program(acc, {'source': SPECIAL}, ctx.rng('special'))
	if ctx.shard == 1 % ctx.nshards:
		check_program(acc, {'source': SPECIAL2}, ctx.rng('special2'))
	if ctx.shard == 2 % ctx.nshards:
		for colliding, fresh, template in TEMPLATES:
			check_template(acc, colliding, fresh, template)
	for i in range(n):
		if not ctx.mine(i):
			continue
		if ctx.out_of_time():
			acc.truncated_by_budget = True
			break
		r = ctx.rng('program', i)
		g = TypedGen(r, size=r.choice([3, 5, 8]), opts={'enums': r.random() < 0.7})
		# enum .name turns an identifier into a string literal: not generated here (see assumptions)
		prog = g.program()
		src = prog.source
		if '.name' in src:
			src = src.replace('.name', '.value')  # keeps the program loadable; types may differ -> rejected originals are skipped
		try:
			check_program(acc, {'source': src}, r)
		except Exception as e:  # noqa
			acc.extra.setdefault('harness_errors', []).append(fmt_exc(e) + src[:600])
			return


def replay(ctx: Ctx, case: dict, acc: Acc) -> None:
	if case.get('kind') == 'template':
		check_template(acc, case['colliding'], case['fresh'], case['source'])
		return
	c = dict(case)
	if c.get('renamings'):
		c['renamings'] = [(l, m) for l, m in c['renamings']]
	check_program(acc, c, random.Random(0))
