"""C11 — the self-hosted parser builds the trees CPython builds.

Sentences of data/syntax/py_gram.lark are parsed by the real engine (SyntaxParser(py_rules())) and by ast.parse; both trees
are mapped into one neutral form and compared. Mutated sentences must be accepted with a matching tree or rejected with
Errors.Syntax whose summary names a token of the input and an existing line. A logical step budget (calls of the engine's
matcher) replaces wall-clock limits.
"""
from __future__ import annotations

import ast
import random
import re

from vf.common import Acc, Ctx, sig_of, fmt_exc

LEVEL = 'exploration'
RULE = ('sentences follow the alternatives of py_gram.lark (expression and statement level, depth <= 4, <= 25 statements), laid out with one blank '
	'between tokens and none after a unary minus; every third sentence is additionally mutated (token deleted / duplicated / swapped / replaced, line re-indented); '
	'one evaluation = one text; distinct = distinct text; non-trivial = holds an operator chain, a call/index/attribute chain or a block')
ASSUMPTIONS = [
	'where the engine grammar derives more than Python (walrus target other than a name, walrus outside parentheses/conditions/arguments, keyword before positional arguments) only the common part is generated; a mutated text the engine accepts but CPython rejects is counted inconclusive',
	'the step budget (400,000 matcher calls per text) is a logical bound; exhausting it is inconclusive, never a verdict',
]
SHARDS = {'quick': 16, 'thorough': 16}
BUDGET_S = {'quick': 50, 'thorough': 560}
N_SENTENCES = {'quick': 2400, 'thorough': 40000}
MIN_OBS = {'outcome': {'quick': 300, 'thorough': 3000}}
STEP_BUDGET = 400_000


class BudgetExceeded(Exception):
	pass


_PARSER = []


def parser():
	if not _PARSER:
		import importlib
		import sys
		from vf.common import REPO
		if REPO not in sys.path:
			sys.path.insert(0, REPO)
		py_rules = importlib.import_module('data.syntax.py_rules').py_rules
		from rogw.tranp.implements.syntax.tranp.syntax import SyntaxParser
		p = SyntaxParser(py_rules())
		counter = [0]
		orig = p._match_entry

		def counted(*a, **k):
			counter[0] += 1
			if counter[0] > STEP_BUDGET:
				raise BudgetExceeded()
			return orig(*a, **k)
		p._match_entry = counted  # instance attribute: the recursive self._match_entry calls go through it
		_PARSER.extend([p, counter])
	return _PARSER


def engine_parse(text: str):
	p, counter = parser()
	counter[0] = 0
	return p.parse(text, 'entry').simplify(), counter[0]


def mutate(r: random.Random, text: str) -> tuple[str, str]:
	lines = text.rstrip('\n').split('\n')
	kind = r.choice(['delete', 'duplicate', 'swap', 'replace', 'reindent', 'drop-colon', 'unclosed'])
	li = r.randrange(len(lines))
	toks = lines[li].strip('\t').split(' ')
	pad = lines[li][:len(lines[li]) - len(lines[li].lstrip('\t'))]
	if kind == 'delete' and len(toks) > 1:
		del toks[r.randrange(len(toks))]
	elif kind == 'duplicate':
		i = r.randrange(len(toks))
		toks.insert(i, toks[i])
	elif kind == 'swap' and len(toks) > 1:
		i = r.randrange(len(toks) - 1)
		toks[i], toks[i + 1] = toks[i + 1], toks[i]
	elif kind == 'replace':
		toks[r.randrange(len(toks))] = r.choice(['=', ')', 'if', 'def', '1', 'x', ':', ',', 'in', 'not', '->', '.', '[', 'lambda', 'return', '+', '-', '$', '?'])
	elif kind == 'reindent':
		pad = r.choice(['', '\t', '\t\t', '\t\t\t'])
	elif kind == 'drop-colon' and toks[-1] == ':':
		toks.pop()
	elif kind == 'unclosed':
		toks = [t for t in toks if t not in (')', ']', '}')] or toks
	lines[li] = pad + ' '.join(toks)
	return '\n'.join(lines) + '\n', kind


def compact(r: random.Random, text: str) -> str | None:
	"""The same sentence with blanks removed between tokens wherever CPython still reads the same program (decided by comparing ast dumps):
	the layout a person actually types (`a[-1]`, `f(x, -y)`, `a-1`). None when nothing could be removed."""
	lines = []
	for line in text.rstrip('\n').split('\n'):
		pad = line[:len(line) - len(line.lstrip('\t'))]
		toks = line.strip('\t').split(' ')
		out = toks[0] if toks else ''
		for prev, tok in zip(toks, toks[1:]):
			wordy = (prev[-1:].isalnum() or prev[-1:] in '_"\'') and (tok[:1].isalnum() or tok[:1] in '_"\'')
			# the tokenizer documents one layout rule: a minus is binary only when a blank follows it (C13 exempts 'after a minus sign')
			glue = not wordy and prev != '-' and r.random() < 0.8
			out += ('' if glue else ' ') + tok
		lines.append(pad + out)
	cand = '\n'.join(lines) + '\n'
	if cand == text:
		return None
	try:
		if ast.dump(ast.parse(cand)) != ast.dump(ast.parse(text)):
			return None
	except SyntaxError:
		return None
	return cand


def airy(r: random.Random, text: str) -> str | None:
	"""The same sentence with white-space-only lines and indented comment lines put between its lines (also right before a line that
	goes back to an outer block): CPython's ast must stay the same."""
	lines = text.rstrip('\n').split('\n')
	out = []
	for i, line in enumerate(lines):
		out.append(line)
		pad = line[:len(line) - len(line.lstrip('\t'))]
		x = r.random()
		if x < 0.25:
			out.append(pad + r.choice(['', ' ', '\t', '  ']))
		elif x < 0.4:
			out.append(pad + '\t' + '# note')
		elif x < 0.5:
			out.append(pad + '# note')
	cand = '\n'.join(out) + '\n'
	if cand == text:
		return None
	try:
		if ast.dump(ast.parse(cand)) != ast.dump(ast.parse(text)):
			return None
	except SyntaxError:
		return None
	return cand


def continued(r: random.Random, text: str) -> str | None:
	"""The same sentence with line breaks inside brackets (after an opening bracket or a comma), the continuation lines indented by
	something that is not the block unit of the text: CPython's ast must stay the same."""
	out_lines = []
	changed = False
	for line in text.rstrip('\n').split('\n'):
		pad = line[:len(line) - len(line.lstrip('\t'))]
		toks = line.strip('\t').split(' ')
		depth = 0
		out = ''
		for i, tok in enumerate(toks):
			out += tok
			if tok in ('(', '[', '{'):
				depth += 1
			elif tok in (')', ']', '}'):
				depth -= 1
			if i + 1 < len(toks):
				if depth > 0 and tok in ('(', '[', '{', ',') and toks[i + 1] not in (')', ']', '}') and r.random() < 0.5:
					out += '\n' + pad + r.choice(['      ', '\t\t\t', '  ', ' ', '\t \t'])
					changed = True
				else:
					out += ' '
		out_lines.append(pad + out)
	if not changed:
		return None
	cand = '\n'.join(out_lines) + '\n'
	try:
		if ast.dump(ast.parse(cand)) != ast.dump(ast.parse(text)):
			return None
	except SyntaxError:
		return None
	return cand


RE_SUMMARY = re.compile(r"^pass: (\d+)/(\d+), token: (.*)\n\((\d+)\) >>> (.*)\n(.*)$", re.S)


def check_summary(text: str, message: str) -> str | None:
	m = RE_SUMMARY.match(message)
	if not m:
		return f'summary has an unexpected form: {message!r}'
	steps, total, tok_repr, line_no, quoted, mark = m.groups()
	try:
		tok = ast.literal_eval(tok_repr)
	except Exception:  # noqa
		return f'token is not a repr: {tok_repr!r}'
	lines = text.split('\n')
	n = int(line_no)
	if not (1 <= n <= len(lines)):
		return f'line {n} does not exist ({len(lines)} lines)'
	if quoted != lines[n - 1]:
		return f'quoted line {quoted!r} is not line {n} of the input {lines[n - 1]!r}'
	special = {'\n', '\\EOF', '\\INDENT', '\\DEDENT', '\\OP_UNARY_MINUS'}
	if tok not in special and tok not in text:
		return f'named token {tok!r} does not occur in the input'
	if tok and set(tok) == {'\n'}:
		# a line break begins right behind the last character of the line it ends
		col = len(mark) - len(mark.lstrip(' ')) - (len(f' {" " * len(line_no)}      '))
		if mark.strip(' ') and col != len(quoted):
			return f'the named token is a line break, the carets begin at column {col} of {quoted!r} (line break at column {len(quoted)})'
	if tok not in special and '\n' not in tok:
		carets = mark.strip(' ')
		col = len(mark) - len(mark.lstrip(' ')) - (len(f' {" " * len(line_no)}      '))
		if carets and set(carets) == {'^'} and tok in quoted:
			if quoted[col:col + len(tok)] != tok and tok != '-':
				return f'carets at column {col} are not under the named token {tok!r} in {quoted!r}'
	return None


def check_text(acc: Acc, case: dict) -> None:
	from rogw.tranp.errors import Errors
	from vf.oracle import pycanon
	text = case['text']
	mutated = case.get('mutation') is not None
	feats = case.get('features', [])
	nontrivial = any(f.startswith(('sum:', 'mul:', 'cmp:', 'bool:', 'relay', 'invoke', 'indexer', 'stmt:if', 'stmt:for', 'stmt:while', 'stmt:function')) for f in feats)
	try:
		py = pycanon.from_python(text)
		py_state = 'ok'
	except SyntaxError:
		py, py_state = None, 'rejects'
	except pycanon.Unsupported as e:
		py, py_state = None, 'unsupported:' + str(e)
	try:
		tree, steps = engine_parse(text)
		en_state = 'ok'
	except Errors.Syntax as e:
		tree, en_state, err = None, 'syntax-error', e
	except BudgetExceeded:
		acc.case(sig_of(text), None, nontrivial)
		acc.inconc('engine step budget exhausted', text[:200])
		return
	except RecursionError:
		acc.case(sig_of(text), None, nontrivial)
		acc.inconc('python recursion limit inside the engine', text[:200])
		return
	except Exception as e:  # noqa
		acc.case(sig_of(text), None, nontrivial)
		acc.see('outcome', 'crash')
		acc.violation('engine/crash', f'{type(e).__name__}: {e} for {text!r}', case)
		return
	acc.see('outcome', f'engine {en_state} / python {py_state.split(":")[0]}' + (' (mutated)' if mutated else ''))
	acc.case(sig_of(text), {'text': text[:240], 'engine': en_state, 'python': py_state} if not mutated else None, nontrivial)
	if en_state == 'ok':
		acc.see('steps', 'le_1e4' if steps <= 10_000 else ('le_1e5' if steps <= 100_000 else 'gt_1e5'))
		def names(t) -> None:
			acc.see('tree_node', t[0])
			if isinstance(t[1], list):
				for c in t[1]:
					names(c)
		names(tree)
		if py_state == 'rejects':
			if mutated:
				acc.inconc('engine accepts a mutated text CPython rejects (engine grammar is more permissive there)', text[:200])
			else:
				acc.inconc('generated sentence rejected by CPython (generator leaves the common subset)', text[:200])
			return
		if py_state.startswith('unsupported'):
			acc.inconc('python tree outside the neutral form: ' + py_state, text[:200])
			return
		try:
			en = pycanon.from_engine(tree)
		except pycanon.Unsupported as e:
			if mutated:
				acc.inconc('engine tree outside the neutral form: ' + str(e), text[:200])
			else:
				acc.violation('tree/unmappable', f'{e} for {text!r}: {str(tree)[:400]}', case)
			return
		except Exception as e:  # noqa
			acc.violation('tree/unmappable', f'{type(e).__name__}: {e} for {text!r}: {str(tree)[:400]}', case)
			return
		d = pycanon.first_diff(en, py)
		if d is not None:
			acc.violation('tree/differs', f'{text!r}: engine vs CPython at {d}', case)
		return
	# engine rejected
	if not mutated and py_state == 'ok':
		acc.violation('sentence/rejected', f'sentence of the grammar rejected: {text!r}: {str(err)[:300]}', case)
		return
	msg = err.args[0] if err.args and isinstance(err.args[0], str) else str(err)
	acc.see('outcome', 'summary-checked')
	problem = check_summary(text, msg)
	if problem:
		acc.violation('rejection/summary', f'{problem} for {text!r}', case)


WITNESS_WALRUS = 'x = ( a := b if c else d )\n'


def classify(v: dict) -> str | None:
	"""Open finding 'walrus-binds-tighter-than-conditional': the shipped grammar says ternary := (expr_move "if" expr_move "else")? expr_move
	with expr_move := (comp_or ":=")? comp_or, so `( a := b if c else d )` is read `( (a := b) if c else d )`; CPython reads the whole
	conditional as the value. Matched only on the committed witness sentence and on that difference (the sentence generator never puts
	a walrus directly in front of a conditional)."""
	if v['kind'] == 'tree/differs' and v.get('case', {}).get('text') == WITNESS_WALRUS and "('walrus', 'a', ('name', 'b'))" in v['detail']:
		return 'walrus-binds-tighter-than-conditional'
	return None


FIXED = [
	'a = b + c * -d\n', 'x . y [ 1 : 2 ] ( a , k = 1 , *r , **kw ) . z\n', 'a = not b == c\n', 'x = -1 - -2\n', 'x = a - b - c\n', 'x = a / b * c % d\n',
	'if a < b <= c and not d or e :\n\treturn f ( x )\nelif z is not None :\n\t...\nelse :\n\traise E ( 1 )\n',
	'def f ( a : int , b : str = "x" ) -> None :\n\tfor i , j in xs :\n\t\twhile ( y := g ( i ) ) not in zs :\n\t\t\tbreak\n\treturn\n',
	'v = lambda a , b : a if b else [ 1 , ( 2 , 3 ) , { "k" : 4 } ]\n', 'a . b . c = 1\n', 'a [ b ] [ c ] = d ( e ) ( f )\n', 'x = ( a , b )\n', 'f ( )\n',
]


FIXED_COMPACT = ['if a :\n\tb = 1\n\t\nc = 2\n', 'if a :\n\tb = 1\n\t# note\nc = 2\n', 'a = 1\n \nb = 2\n', 'def f ( ) -> None :\n\twhile a :\n\t\tb = 1\n\t\t\n\tc = 2\n  \nd = 3\n',
	'x = a[-1]\n', 'x = [-1, -2]\n', 'x = a[b:-1]\n', 'f(a[-n], -m)\n', 'x = {"k": -2}\n', 'x = (-a)\n', 'x = a if -b else -c\n', 'x = a == -1\n', 'x = a*-b\n']


def shard(ctx: Ctx, acc: Acc) -> None:
	from vf.gen.pysent import PySent
	if ctx.shard == 0:
		for t in FIXED + FIXED_COMPACT:
			check_text(acc, {'text': t, 'features': ['sum:+', 'stmt:if']})
		check_text(acc, {'text': WITNESS_WALRUS, 'features': ['walrus', 'ternary']})
		# line breaks inside brackets in front of the first block, continuation lines indented by something else than the block unit
		for t in ('x = f ( a ,\n      b )\nif x :\n    y = 1\n', 'x = [\n\t\t1 ,\n\t\t2\n]\nwhile x :\n\tx = g ( x )\n', 'd = {\n  "k" : 1\n}\nif d :\n\ty = 2\n\tif y :\n\t\tz = 3\n'):
			check_text(acc, {'text': t, 'features': ['invoke', 'stmt:if', 'layout:continued']})
		# texts outside the grammar: a '?' group taken twice
		for t in ('x = not not not a\n', 'x = - - a\n', 'f ( a = b = 1 )\n', 'f ( * * * a )\n', 'x = ( a := b := c )\n', 'x = a not not in b\n', 'p = lambda : lambda : q\n', 'a = b = c\n'):
			check_text(acc, {'text': t, 'features': ['outside-grammar'], 'mutation': 'fixed'})
	n = N_SENTENCES[ctx.tier]
	for i in range(n):
		if not ctx.mine(i):
			continue
		if ctx.out_of_time():
			acc.truncated_by_budget = True
			break
		r = ctx.rng('sentence', i)
		g = PySent(r, max_depth=r.choice([1, 2, 2, 2, 3, 3, 4] if i % 7 == 0 else [1, 2, 2, 3]))
		text = g.module()
		case = {'text': text, 'features': sorted(g.f)}
		try:
			check_text(acc, case)
			for f in g.f:
				acc.see('feature', f)
			if i % 2 == 1:
				ct = compact(r, text)
				if ct is not None:
					acc.see('layout', 'compact')
					check_text(acc, {'text': ct, 'features': sorted(g.f) + ['layout:compact']})
			if i % 5 == 3 and '\t' in text:
				# the same sentence indented with blanks (another width each time): the one parser of this process reads texts of any unit
				width = r.choice([1, 2, 3, 4, 8])
				st = '\n'.join((' ' * width * (len(l) - len(l.lstrip('\t')))) + l.lstrip('\t') for l in text.split('\n'))
				try:
					same = ast.dump(ast.parse(st)) == ast.dump(ast.parse(text))
				except SyntaxError:
					same = False
				if same:
					acc.see('layout', f'indent-{width}-blanks')
					check_text(acc, {'text': st, 'features': sorted(g.f) + ['layout:blanks']})
			if i % 4 == 2:
				at = airy(r, text)
				if at is not None:
					acc.see('layout', 'blank-and-comment-lines')
					check_text(acc, {'text': at, 'features': sorted(g.f) + ['layout:airy']})
			if i % 4 == 1:
				bt = continued(r, text)
				if bt is not None:
					acc.see('layout', 'line-breaks-inside-brackets')
					check_text(acc, {'text': bt, 'features': sorted(g.f) + ['layout:continued']})
			if i % 3 == 0:
				mt, kind = mutate(r, text)
				if mt != text:
					if i % 2 == 0:
						# refusals far down the text: line numbers with two and three digits in the summary's quotation
						pre = r.choice([8, 9, 10, 11, 98, 99, 100, 101, 130])
						mt = ''.join(f'{r.choice(["x", "y", "zed"])} = {k}\n' for k in range(pre)) + mt
						acc.see('layout', f'refusal-after-{len(str(pre))}-digit-lines')
					check_text(acc, {'text': mt, 'features': sorted(g.f), 'mutation': kind})
		except Exception as e:  # noqa
			acc.extra.setdefault('harness_errors', []).append(fmt_exc(e) + repr(case)[:600])
			return


def replay(ctx: Ctx, case: dict, acc: Acc) -> None:
	check_text(acc, case)
