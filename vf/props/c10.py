"""C10 — tree addressing is a bijection and node resolution is order-independent.

Laws on ASTFinder / EntryCache / Nodes are checked against an independent walk of the very same tree; node classes are
resolved in K fresh Nodes/NodeResolver pairs under random query orders and compared with the document-order baseline.
"""
from __future__ import annotations

import os
import random

from vf.common import Acc, Ctx, sig_of, fmt_exc

LEVEL = 'exploration'
RULE = ('trees: lark parse trees of generated modules (vf.gen.syntactic, depth<=4) and of the repository\'s own modules, plus random '
	'EntryOfDict trees (depth<=8) whose siblings carry unique / repeated / empty tags and tags that are prefixes of one another; '
	'one evaluation = one tree (all laws on all its entries, K permuted resolution orders); distinct = distinct multiset of (tag, depth); '
	'non-trivial = the tree has repeated sibling tags or an empty slot')
ASSUMPTIONS = [
	'tags never contain "." or "[" (true for every grammar rule and terminal name)',
	'parent(child) == node is demanded only where the node\'s own tag is one the resolver maps (Nodes.parent skips unmapped layers by design)',
	'ancestor(p, tag) is compared for tags different from p\'s own tag',
	'Nodes.expand is checked only for containment and non-overlap (its 3-level heuristic is not part of the statement)',
]
SHARDS = {'quick': 8, 'thorough': 16}
BUDGET_S = {'quick': 50, 'thorough': 540}
N_TREES = {'quick': 320, 'thorough': 6000}
K_PERM = {'quick': 4, 'thorough': 12}
MIN_OBS = {'law': {'quick': 20000, 'thorough': 400000}, 'permuted_resolutions': {'quick': 20000, 'thorough': 400000}}

DICT_TAGS = ['a', 'ab', 'abc', 'b', 'blk', 'nm', 'a_b', 'x1', 'tok', 'A_B']
REAL_TAGS = ['file_input', 'block', 'assign', 'var', 'name', 'funccall', 'arguments', 'argvalue', 'getattr', 'number', 'string', 'if_stmt', 'function_def', 'class_def', 'sum', 'term']

_SESSION = None


def session():
	global _SESSION
	if _SESSION is None:
		from vf.session import Session
		_SESSION = Session()
	return _SESSION


def gen_dict_tree(r: random.Random, depth: int, tags: list[str]):
	"""dict-form tree for EntryOfDict; None = empty slot."""
	def node(d: int):
		x = r.random()
		if d <= 0 or x < 0.25:
			if x < 0.08:
				return None
			return {'name': r.choice(tags).upper() if r.random() < 0.5 else r.choice(tags), 'value': r.choice(['', 'v', 'x', '1', 'foo'])}
		n = r.choice([0, 1, 2, 2, 3, 4, 6])
		mode = r.choice(['unique', 'repeat', 'mixed', 'all-same', 'with-empty'])
		kids = []
		pool = r.sample(tags, min(len(tags), max(1, n)))
		for i in range(n):
			k = node(d - 1)
			if k is not None:
				if mode == 'unique':
					k['name'] = pool[i % len(pool)] + ('' if i < len(pool) else str(i))
				elif mode == 'all-same':
					k['name'] = pool[0]
				elif mode == 'repeat':
					k['name'] = pool[i % max(1, len(pool) // 2)]
			elif mode != 'with-empty' and r.random() < 0.5:
				k = {'name': r.choice(tags), 'value': 't'}
			kids.append(k)
		return {'name': r.choice(tags), 'children': kids}
	root = node(depth)
	if root is None or 'children' not in root:
		root = {'name': 'root', 'children': [root]}
	return root


# ---------------------------------------------------------------------------- laws on finder / cache

def finder_laws(acc: Acc, root, label: str, case: dict) -> list[tuple[str, object]] | None:
	from rogw.tranp.syntax.ast.cache import EntryCache
	from rogw.tranp.syntax.ast.finder import ASTFinder
	from vf.trees import walk_entries
	finder = ASTFinder()
	expected = list(walk_entries(root))
	def bad(kind: str, detail: str) -> None:
		acc.violation(f'{label}/{kind}', detail, case)
	try:
		fp = finder.full_pathfy(root)
	except Exception as e:  # noqa
		bad('full_pathfy-raise', f'{type(e).__name__}: {e}')
		return None
	acc.see('law', 'full_pathfy-count')
	if len(fp) != len(expected):
		bad('path-collision', f'{len(expected)} entries but {len(fp)} distinct paths')
		return None
	acc.see('law', 'full_pathfy-paths')
	keys = list(fp.keys())
	for (idx, entry, path), got in zip(expected, keys):
		if path != got:
			bad('path-differs', f'entry at child-index path {idx}: expected {path!r}, got {got!r}')
			return None
	# pluck returns that very entry (identity of the underlying object; empty slots compared by position)
	def same(a, b) -> bool:
		if a.source is None or b.source is None:
			return a.source is None and b.source is None
		return a.source is b.source
	for idx, entry, path in expected:
		acc.see('law', 'pluck')
		try:
			got = finder.pluck(root, path)
		except Exception as e:  # noqa
			bad('pluck-raise', f'{path!r}: {type(e).__name__}: {e}')
			return None
		if not same(got, entry) or not same(fp[path], entry):
			bad('pluck-other-entry', f'{path!r} -> {got.name!r}, expected {entry.name!r} at {idx}')
			return None
		if not finder.exists(root, path):
			bad('exists-false', path)
		if entry.is_terminal and finder.exists(root, path + '.zz_absent'):
			bad('exists-true-for-absent', path + '.zz_absent')
	# find() below a via == the subtree
	r = random.Random(len(expected))
	for idx, entry, path in r.sample(expected, min(6, len(expected))):
		acc.see('law', 'find-subtree')
		sub = finder.find(root, path, lambda e, p: True)
		want = [p for _, _, p in expected if p == path or p.startswith(path + '.')]
		if list(sub.keys()) != want:
			bad('find-subtree', f'via {path!r}: {len(sub)} paths, expected {len(want)}')
	# EntryCache
	cache = EntryCache()
	for p, e in fp.items():
		cache.add(p, e)
	for n, (idx, entry, path) in enumerate(expected):
		acc.see('law', 'cache')
		if not cache.exists(path) or cache.index_of(path) != n or not same(cache.by(path), entry):
			bad('cache', f'{path!r}: exists={cache.exists(path)} index={cache.index_of(path)} expected index {n}')
			break
	for idx, entry, path in r.sample(expected, min(6, len(expected))):
		acc.see('law', 'cache-group_by')
		want = [p for _, _, p in expected if p == path or p.startswith(path + '.')]
		got = list(cache.group_by(path).keys())
		if got != want:
			bad('cache-group_by', f'via {path!r}: {got[:5]} vs {want[:5]}')
		want1 = [p for _, _, p in expected if p == path or (p.startswith(path + '.') and p.count('.') == path.count('.') + 1)]
		got1 = list(cache.group_by(path, depth=1).keys())
		if got1 != want1:
			bad('cache-group_by-depth1', f'via {path!r}: {got1[:6]} vs {want1[:6]}')
	return [(p, e) for _, e, p in expected]


# ---------------------------------------------------------------------------- laws on Nodes

def nodes_laws(acc: Acc, root, label: str, case: dict, k_perm: int, seed: int) -> dict[str, str] | None:
	from rogw.tranp.errors import Errors
	from rogw.tranp.syntax.ast.path import EntryPath
	from vf.trees import fresh_nodes, walk_entries
	expected = list(walk_entries(root))
	paths = [p for _, _, p in expected]
	by_path = {p: e for _, e, p in expected}
	s = session()
	def bad(kind: str, detail: str) -> None:
		acc.violation(f'{label}/{kind}', detail, case)
	nodes, resolver = fresh_nodes(s, root)
	# baseline: resolve in document order
	baseline: dict[str, str] = {}
	for n, p in enumerate(paths):
		acc.see('law', 'nodes-id')
		if nodes.id(p) != n:
			bad('id-order', f'{p!r}: id {nodes.id(p)} expected {n}')
			return
		try:
			node = nodes.by(p)
			baseline[p] = type(node).__module__ + '.' + type(node).__name__
			if node.full_path != p:
				bad('by-path', f'{p!r} -> node with path {node.full_path!r}')
		except Errors.Error as e:
			baseline[p] = 'raise:' + type(e).__name__
		except Exception as e:  # noqa
			baseline[p] = 'crash:' + type(e).__name__
			bad('by-crash', f'{p!r}: {type(e).__name__}: {e}')
			return
		acc.see('node_class', baseline[p].rsplit('.', 1)[-1])
	# structural queries vs the independent walk
	def tag_of(elem: str) -> str:
		return elem.split('[')[0]
	for p in paths:
		entry = by_path[p]
		depth = p.count('.')
		kids = [q for q in paths if q.startswith(p + '.') and q.count('.') == depth + 1]
		try:
			got = [n.full_path for n in nodes.children(p)]
		except Errors.Error as e:
			got = ['raise:' + type(e).__name__]
		except Exception as e:  # noqa
			bad('children-crash', f'{p!r}: {type(e).__name__}: {e}')
			return
		acc.see('law', 'children')
		if got != kids and not (got and got[0].startswith('raise:')):
			bad('children', f'{p!r}: {got[:6]} expected {kids[:6]}')
			return
		acc.see('law', 'values')
		want_values = [by_path[q].value for q in paths if (q == p or q.startswith(p + '.')) and by_path[q].value]
		if nodes.values(p) != want_values:
			bad('values', f'{p!r}: {nodes.values(p)[:6]} expected {want_values[:6]}')
			return
		elems = p.split('.')
		if len(elems) > 1:
			# parent: nearest proper prefix whose tag the resolver maps
			want_parent = None
			for cut in range(len(elems) - 1, 0, -1):
				if resolver.can_resolve(tag_of(elems[cut - 1])):
					want_parent = '.'.join(elems[:cut])
					break
			acc.see('law', 'parent')
			try:
				gp = nodes.parent(p).full_path
			except Errors.NodeNotFound:
				gp = None
			except Errors.Error as e:
				gp = 'raise:' + type(e).__name__
			if gp != want_parent and not (isinstance(gp, str) and gp.startswith('raise:')):
				bad('parent', f'{p!r}: parent {gp!r} expected {want_parent!r}')
				return
			if resolver.can_resolve(tag_of(elems[-2])) and gp != '.'.join(elems[:-1]) and not (isinstance(gp, str) and gp.startswith('raise:')):
				bad('parent-of-child', f'{p!r}: parent {gp!r} is not the node it is a child of')
				return
			acc.see('law', 'siblings')
			up = '.'.join(elems[:-1])
			want_sib = [q for q in paths if q.startswith(up + '.') and q.count('.') == depth]
			try:
				got_sib = [n.full_path for n in nodes.siblings(p)]
			except Errors.Error as e:
				got_sib = want_sib
			if got_sib != want_sib:
				bad('siblings', f'{p!r}: {got_sib[:6]} expected {want_sib[:6]}')
				return
			# ancestor for every tag on the way up; for the entry's own tag the answer is the entry itself or its nearest proper ancestor with
			# that tag (the documentation says "parent", the search starts at the entry) - never anything that is not on the way up
			own = tag_of(elems[-1])
			seen_tags = set()
			for cut in range(len(elems), 0, -1):
				t = tag_of(elems[cut - 1])
				if t in seen_tags:
					continue
				seen_tags.add(t)
				acc.see('law', 'ancestor' + (':own-tag' if cut == len(elems) else ''))
				try:
					ga = nodes.ancestor(p, t).full_path
				except Errors.Error as e:
					ga = 'raise:' + type(e).__name__
				if ga.startswith('raise:'):
					continue
				accept = ['.'.join(elems[:cut])]
				if cut == len(elems):
					proper = next(('.'.join(elems[:c]) for c in range(len(elems) - 1, 0, -1) if tag_of(elems[c - 1]) == t), None)
					if proper:
						accept.append(proper)
				if ga not in accept:
					bad('ancestor', f'{p!r} tag {t!r}: {ga!r} expected {accept}')
					return
		if entry.has_child:
			acc.see('law', 'expand-containment')
			try:
				ex = [n.full_path for n in nodes.expand(p)]
			except Errors.Error:
				ex = []
			for q in ex:
				if not q.startswith(p + '.'):
					bad('expand-outside', f'{p!r}: expand returned {q!r}')
					return
			for i, q in enumerate(ex):
				if any(o != q and q.startswith(o + '.') for o in ex):
					bad('expand-overlap', f'{p!r}: {q!r} lies below another returned node')
					return
	# order independence
	ops = ['by', 'by', 'by', 'children', 'parent', 'expand', 'ancestor', 'values', 'tokens', 'siblings']
	for k in range(k_perm):
		r = random.Random(seed * 1000 + k)
		nodes_k, _ = fresh_nodes(s, root)
		order = paths[:]
		r.shuffle(order)
		if k == 1:
			order.reverse()
		for p in order:
			op = r.choice(ops)
			try:
				if op == 'children':
					nodes_k.children(p)
				elif op == 'parent':
					nodes_k.parent(p)
				elif op == 'expand':
					nodes_k.expand(p)
				elif op == 'ancestor':
					elems = p.split('.')
					if len(elems) > 1:
						nodes_k.ancestor(p, tag_of(r.choice(elems[:-1])))
				elif op == 'values':
					nodes_k.values(p)
				elif op == 'siblings':
					nodes_k.siblings(p)
				elif op == 'tokens':
					nodes_k.by(p).tokens
			except Exception:  # noqa  (outcome of the side query is irrelevant here)
				pass
			try:
				node = nodes_k.by(p)
				got = type(node).__module__ + '.' + type(node).__name__
			except Errors.Error as e:
				got = 'raise:' + type(e).__name__
			except Exception as e:  # noqa
				got = 'crash:' + type(e).__name__
			acc.see('permuted_resolutions', 'same' if got == baseline[p] else 'different')
			if got != baseline[p]:
				bad('order-dependent-class', f'{p!r}: {got} under a permuted query order (k={k}), {baseline[p]} in document order')
				return None
	# the Nodes of the tree handled before this one are still alive (as the modules of a session are): what they answer for their own
	# tree is not changed by this tree having been indexed and resolved in the meantime
	if _PREVIOUS:
		prev_nodes, prev_paths, prev_classes, prev_case = _PREVIOUS[0]
		for n, p in enumerate(prev_paths):
			acc.see('law', 'previous-tree-unchanged')
			try:
				pid = prev_nodes.id(p)
				node = prev_nodes.by(p)
				cls = type(node).__module__ + '.' + type(node).__name__
			except Errors.Error as e:
				pid, cls = n, 'raise:' + type(e).__name__
			if pid != n or cls != prev_classes[p]:
				acc.violation(f'{label}/previous-tree-changed', f'after this tree was indexed, the Nodes of the tree handled before answer id {pid} (was {n}) / class {cls} (was {prev_classes[p]}) for {p!r}', {'kind': 'sequence', 'first': prev_case, 'second': case})
				break
	_PREVIOUS[:] = [(nodes, paths, dict(baseline), {k: v for k, v in case.items() if k != 'fresh_process_classes'})]
	return baseline


_PREVIOUS: list = []


def fresh_process_class_maps(sources: list[str]) -> list[dict[str, str] | None]:
	"""One new interpreter per source (vf.mon.class_map), all started together: what the node classes of that tree are in a process that
	has never resolved another tree."""
	import json
	import subprocess
	import sys
	from vf.common import REPO, ROOT
	env = dict(os.environ, PYTHONPATH=os.pathsep.join([ROOT, REPO, os.path.join(ROOT, '.deps', 'py313')]), PYTHONDONTWRITEBYTECODE='1', PYTHONHASHSEED='0')
	procs = []
	for src in sources:
		pr = subprocess.Popen([sys.executable, '-X', 'utf8', '-m', 'vf.mon.class_map'], cwd=REPO, env=env, stdin=subprocess.PIPE, stdout=subprocess.PIPE, stderr=subprocess.PIPE, text=True)
		procs.append(pr)
	out: list[dict[str, str] | None] = []
	for pr, src in zip(procs, sources):
		try:
			so, _ = pr.communicate(src, timeout=300)
			out.append(json.loads(so) if pr.returncode == 0 else None)
		except Exception:  # noqa
			pr.kill()
			out.append(None)
	return out


# ---------------------------------------------------------------------------- cases

def shape_sig(root) -> str:
	from vf.trees import walk_entries
	return sig_of(sorted((e.name, len(idx)) for idx, e, _ in walk_entries(root)))


def nontrivial(root) -> bool:
	from vf.trees import walk_entries
	for _, e, _ in walk_entries(root):
		if e.has_child:
			names = [c.name for c in e.children]
			if len(set(names)) < len(names) or '__empty__' in names:
				return True
	return False


def check_case(acc: Acc, case: dict, k_perm: int) -> None:
	from rogw.tranp.syntax.ast.entry import EntryOfDict
	from vf.trees import parse_to_entry, read_module_text
	kind = case['kind']
	try:
		if kind == 'dict':
			root = EntryOfDict(case['tree'])
		elif kind == 'source':
			root = parse_to_entry(session(), case['source'])
		else:
			root = parse_to_entry(session(), read_module_text(case['module']))
	except Exception as e:  # noqa
		acc.case(None)
		acc.inconc('not parsable by the grammar: ' + type(e).__name__, str(case.get('module') or case.get('source', ''))[:200])
		return
	acc.see('tree_kind', kind)
	res = finder_laws(acc, root, kind, case)
	if res is not None and (kind != 'dict' or case.get('nodes', True)):
		classes = nodes_laws(acc, root, kind, case, k_perm, case.get('seed', 0))
		want = case.get('fresh_process_classes')
		if classes is not None and want is not None:
			# the class of a node is a function of its tree alone: the same in this long-lived process as in one that never saw another tree
			for p, c in classes.items():
				acc.see('compared_with_fresh_process', 'same' if want.get(p) == c else 'different')
				if want.get(p) != c:
					acc.violation(f'{kind}/class-depends-on-earlier-trees', f'{p!r}: {c} in this process (after other trees under the same module path), {want.get(p)} in a fresh process', {k: v for k, v in case.items() if k != 'fresh_process_classes'})
					break
	sample = None
	if kind == 'dict':
		sample = {'kind': kind, 'tree': case['tree']} if len(str(case['tree'])) < 500 else None
	elif kind == 'source':
		sample = {'kind': kind, 'source': case['source'][:300]}
	else:
		sample = {'kind': kind, 'module': case['module']}
	acc.case(shape_sig(root), sample, nontrivial(root))


def classify(v: dict) -> str | None:
	return None


FIXED_SOURCES = [
	# two versions of one module: every tree path exists in both, what stands there differs (a verdict remembered from the first tree must not decide the second)
	'class A:\n\tdef __init__(self) -> None:\n\t\tself.x = 1\n\t\tself.y = 2\n\tdef setup(self) -> None:\n\t\tself.x = 1\n\t\tself.y = 2\n',
	'class A:\n\tdef setup(self) -> None:\n\t\tself.x = 1\n\t\tself.y = 2\n\tdef __init__(self) -> None:\n\t\tself.x = 1\n\t\tself.y = 2\n',
	'class A:\n\tdef __init__(self) -> None:\n\t\tself.x = 1\n\t\tself.y = 2\n\tdef setup(self) -> None:\n\t\tself.x = 1\n\t\tself.y = 2\n',
	'x = a + b + c\ny = a and b and c\nz = a * b * c\nw = a << 1 << 2\nv = a - b - c + d\n',
	# literals no node class accepts (binary / octal / imaginary): a refused resolution must not leave anything behind that later queries see
	'x = 0b1010\ny = [0o17, 1j, 2]\nz = f(0b1, k=0o7)\n', 'a = 1\nb = 0b11\nc = a + b\n',
	# the same statement text under paths that differ only by indices: the class of a node depends on where it stands, not on what was resolved first
	'class A:\n\tdef __init__(self) -> None:\n\t\tself.x = 1\n\t\tself.y = 2\n\tdef m(self) -> None:\n\t\tself.x = 1\n\t\tself.y = 2\n\tdef __init__2(self) -> None:\n\t\tself.x = 1\n',
	'class A:\n\tdef m(self) -> None:\n\t\tself.x = 1\n\tdef __init__(self) -> None:\n\t\tself.x = 1\n',
	'def f() -> None:\n\tdef g() -> None:\n\t\tpass\ndef g() -> None:\n\tpass\nclass C:\n\tdef g() -> None:\n\t\tpass\n\tdef h(self) -> None:\n\t\tdef g() -> None:\n\t\t\tpass\n',
	'class A:\n\tx: int = 1\n\tdef __init__(self) -> None:\n\t\tx: int = 1\n\t\tself.x: int = 1\nx: int = 1\n',
	'class A:\n\tclass B:\n\t\tpass\nclass B:\n\tpass\ndef f() -> None:\n\tclass B:\n\t\tpass\n',
	'a = 1\nfor a in b:\n\ta = 1\nwith c as a:\n\ta = 1\n',
]


def shard(ctx: Ctx, acc: Acc) -> None:
	from vf.gen.syntactic import SynGen
	from vf.trees import real_module_paths
	n = N_TREES[ctx.tier]
	k = K_PERM[ctx.tier]
	real = real_module_paths()
	recent: list[dict] = []
	if ctx.shard == 0:
		fresh = fresh_process_class_maps(FIXED_SOURCES)
		for j, src in enumerate(FIXED_SOURCES):
			if fresh[j] is None:
				acc.inconc('fresh-process class map not obtained', src[:80])
			check_case(acc, {'kind': 'source', 'source': src, 'seed': 9000 + j, 'fresh_process_classes': fresh[j]}, max(k, 6))
	for i in range(n):
		if not ctx.mine(i):
			continue
		if ctx.out_of_time():
			acc.truncated_by_budget = True
			break
		r = ctx.rng('tree', i)
		x = i % 10
		if x < 4:
			generic = r.random() < 0.6
			# Nodes laws need a tree the node classes can live on: grammar tags in random positions (a `name` as root) make
			# match_feature look at parents that do not exist, which says nothing about addressing -> finder/cache laws only
			case = {'kind': 'dict', 'tree': gen_dict_tree(r, r.choice([1, 2, 3, 4, 6, 8]), DICT_TAGS if generic else REAL_TAGS), 'seed': i, 'nodes': generic}
		elif x < 9:
			g = SynGen(r, max_depth=r.choice([1, 2, 3, 4]))
			case = {'kind': 'source', 'source': g.module(), 'seed': i}
		else:
			case = {'kind': 'module', 'module': real[(i // 10) % len(real)], 'seed': i}
		try:
			check_case(acc, case, k if case['kind'] != 'module' else max(1, k // 4))
		except Exception as e:  # noqa
			acc.extra.setdefault('harness_errors', []).append(fmt_exc(e) + repr(case)[:800])
			return
		if case['kind'] == 'source':
			recent.append(case)
			del recent[:-(4 if ctx.quick else 24)]
	# the last generated sources once more, at the end of this process's history, against their fresh-process class maps
	try:
		fresh = fresh_process_class_maps([c['source'] for c in recent])
		for c, f in zip(recent, fresh):
			if f is not None:
				check_case(acc, dict(c, fresh_process_classes=f), 1)
	except Exception as e:  # noqa
		acc.extra.setdefault('harness_errors', []).append(fmt_exc(e))


def replay(ctx: Ctx, case: dict, acc: Acc) -> None:
	if case.get('kind') == 'sequence':
		check_case(acc, case['first'], 1)
		check_case(acc, case['second'], 1)
		return
	if case.get('seed', 0) >= 9000 and case.get('kind') == 'source':
		# the fixed sources are a history: all of them, in their order, each compared with its fresh-process class map
		fresh = fresh_process_class_maps(FIXED_SOURCES)
		for j, src in enumerate(FIXED_SOURCES):
			check_case(acc, {'kind': 'source', 'source': src, 'seed': 9000 + j, 'fresh_process_classes': fresh[j]}, K_PERM['thorough'])
		return
	check_case(acc, case, K_PERM['thorough'])
