"""C17 — folding constant expressions gives the value Python gives.

Generated literal expressions are planted as enum member values; the real LiteralEvaluator is executed on the
member's value node and the real Py2Cpp output of `E.X.value` is read back; the oracle is CPython executing the
very same module text (real enum semantics) — equal value and type, or a refusal with an application error.
"""
from __future__ import annotations

import ast
import random
import re

from vf.common import Acc, Ctx, sig_of, fmt_exc

LEVEL = 'exploration'
RULE = ('expressions grown from decimal/hex ints, floats, quoted strings, unary + - ~, parentheses, + - * / % | ^ & << >>, '
	'int()/float()/str() casts and references to earlier members (same enum: bare name, other enum: E.X.value), depth <= 5; '
	'one evaluation = one expression observed at LiteralEvaluator.exec and (when the module transpiles) in the emitted text; '
	'distinct = distinct expression text; non-trivial = at least one operator, cast or reference')
ASSUMPTIONS = [
	'expressions for which CPython itself raises (ZeroDivisionError, TypeError, ValueError) have no Python value and are counted inconclusive',
	'string values are compared on content (tranp keeps them as quoted tokens)',
	'shift counts are kept in 0..40 so results stay small; this is a generator bound, not part of the property',
	'string prefixes (r/b/u/f) are not generated: tranp has no notion of them anywhere (String.as_string is tokens[1:-1]); members whose value would alias an earlier member of another type (100 vs 100.0) are skipped',
]
SHARDS = {'quick': 8, 'thorough': 16}
BUDGET_S = {'quick': 45, 'thorough': 480}
N_MODULES = {'quick': 160, 'thorough': 6000}
PER_ENUM = 6
ENUMS_PER_MODULE = 4
MIN_OBS = {'evaluator_outcome': {'quick': 500, 'thorough': 10000}}

BIN_OPS = ['+', '-', '*', '/', '%', '|', '^', '&', '<<', '>>']


class Gen:
	def __init__(self, r: random.Random, refs: list, allow: dict) -> None:
		self.r = r
		self.refs = refs  # (text usable here, kind, python value)
		self.allow = allow
		self.features: set[str] = set()

	def int_lit(self) -> str:
		r = self.r
		x = r.random()
		if x < 0.6:
			return str(r.choice([0, 1, 2, 3, 5, 7, 10, 12, 255, 1000, 65536, 2147483647]))
		if x < 0.9:
			self.features.add('hex')
			v = r.choice([0, 1, 0xF, 0x1F, 0xff, 0xABCD, 0x7fffffff])
			s = hex(v)
			if r.random() < 0.3:
				s = '0x' + s[2:].upper()
			if self.allow.get('hex_upper_x') and r.random() < 0.1:
				s = '0X' + s[2:]
				self.features.add('hex_upper_x')
			return s
		self.features.add('underscore')
		return r.choice(['1_000', '10_0', '0x_ff' if self.allow.get('hex_underscore') else '1_0'])

	def float_lit(self) -> str:
		self.features.add('float')
		return self.r.choice(['0.5', '1.5', '2.0', '0.25', '10.75', '3.', '.5', '1e3', '2.5e-3', '1E2'])

	def str_lit(self) -> str:
		r = self.r
		self.features.add('str')
		body = ''.join(r.choice('abz 01') for _ in range(r.randint(0, 3)))
		x = r.random()
		if x < 0.45:
			return "'" + body + "'"
		if x < 0.9:
			return '"' + body + '"'
		if x < 0.93 and self.allow.get('str_inner_quote'):
			self.features.add('str_inner_quote')
			return r.choice(['\'a"b\'', '"a\'b"'])
		if x < 0.96 and self.allow.get('str_escape'):
			self.features.add('str_escape')
			return r.choice(["'a\\nb'", '"t\\tz"', "'q\\'q'", '"b\\\\"', "'a\\\\\"b'", '"c\\\\\'d"', "'e\\\\'"])  # the last three: an escaped backslash in front of the other quote / the end
		if x < 0.98 and self.allow.get('str_triple'):
			self.features.add('str_triple')
			return r.choice(['"""ab"""', "'''z'''"])
		if self.allow.get('str_prefix'):
			self.features.add('str_prefix')
			return r.choice(["r'a'", 'b"x"', "u'q'"])
		return "'" + body + "'"

	def atom(self, want: str) -> str:
		r = self.r
		cands = [ref for ref in self.refs if ref[1] == want or (want == 'num' and ref[1] in ('int', 'float'))]
		if cands and r.random() < 0.25:
			self.features.add('ref')
			ref = r.choice(cands)
			self.features.update(ref[3])
			return ref[0]
		if want == 'str':
			return self.str_lit()
		if want == 'float':
			return self.float_lit()
		if want == 'int':
			return self.int_lit()
		return self.int_lit() if r.random() < 0.65 else self.float_lit()

	def expr(self, want: str, depth: int) -> str:
		"""want in int / float / num / str / any"""
		r = self.r
		if want == 'any':
			want = r.choices(['int', 'num', 'float', 'str'], [5, 3, 1, 2])[0]
		if depth <= 0 or r.random() < 0.2:
			return self.atom(want)
		x = r.random()
		if want == 'str':
			if x < 0.55:
				self.features.add('op:+str')
				return f'{self.expr("str", depth - 1)} + {self.expr("str", depth - 1)}'
			if x < 0.8:
				self.features.add('cast:str')
				inner = self.expr(r.choice(['int', 'num', 'float', 'str'] if self.allow.get('str_of_str') else ['int', 'num', 'float']), depth - 1)
				return f'str({inner})'
			if x < 0.9:
				self.features.add('group')
				return f'({self.expr("str", depth - 1)})'
			if x < 0.93 and self.allow.get('mixed'):
				self.features.add('mixed-type')
				return f'{self.expr("str", depth - 1)} {r.choice(["*", "+", "%"])} {r.choice([0, 1, 2, 3])}'
			return self.atom('str')
		if x < 0.5:
			if want == 'int':
				op = r.choice(['+', '-', '*', '%', '|', '^', '&', '<<', '>>'])
			elif want == 'float':
				op = r.choice(['+', '-', '*', '/', '%'])
			else:
				op = r.choice(BIN_OPS)
			self.features.add('op:' + op)
			if op in ('<<', '>>'):
				left = self.expr('int', depth - 1)
				right = str(r.choice([0, 1, 2, 3, 8, 31, 40])) if r.random() < 0.8 else f'(({self.expr("int", depth - 2)}) % 41)'
				# the whole shift is parenthesised: as the left operand of `*` its count would otherwise take the other factor in
				# (`a << 31 * b` shifts by 31 * b: CPython then builds an integer of gigabytes - met by the thorough tier on seed 1)
				self.features.add('group')
				return f'({left} {op} {right})'
			elif op in ('|', '^', '&'):
				left, right = self.expr('int', depth - 1), self.expr('int', depth - 1)
				if want == 'num' and self.allow.get('mixed') and r.random() < 0.1:
					right = self.float_lit()
					self.features.add('mixed-type')
			elif op == '/':
				left, right = self.expr('num', depth - 1), self.expr('num', depth - 1)
			else:
				sub = 'int' if want == 'int' else ('float' if want == 'float' and r.random() < 0.5 else 'num')
				left, right = self.expr(sub if want != 'float' else 'float', depth - 1), self.expr(sub, depth - 1)
			return f'{left} {op} {right}'
		if x < 0.62:
			u = r.choice(['-', '-', '+', '~'] if want == 'int' else ['-', '+'])
			self.features.add('unary:' + u)
			inner = self.expr(want, depth - 1)
			if r.random() < 0.3:
				inner = f'({inner})'
			return f'{u}{inner}'
		if x < 0.78:
			self.features.add('group')
			return f'({self.expr(want, depth - 1)})'
		if x < 0.9:
			if want == 'int':
				self.features.add('cast:int')
				y = r.random()
				if y < 0.5:
					return f'int({self.expr("num", depth - 1)})'
				if y < 0.7:
					return f"int('{r.choice(['1', '12', '007', '-3', ' 4 '])}')"
				if y < 0.9:
					# a second argument of a cast is part of the value: int(text, base)
					self.features.add('cast:int-base')
					text, base = r.choice([('10', 16), ('12', 8), ('ff', 16), ('101', 2), ('z', 36), ('-1f', 16), ('77', 10), ('0x1f', 16), ('0x1f', 0)])
					return f"int('{text}', {base})"
				return f'int({self.expr("str", depth - 1)})'
			self.features.add('cast:float')
			y = r.random()
			if y < 0.6:
				return f'float({self.expr("num", depth - 1)})'
			return f"float('{r.choice(['1.5', '2', '1e2', '-0.5', '.5'])}')"
		return self.atom(want)


# C++ spelling of string *tokens* with triple quotes / embedded double quotes is string-literal translation (decided under C01),
# not folding: members carrying these features (directly or through a reference) are judged at the evaluator only
TAINT: set[str] = set()  # (was {'str_triple', 'str_inner_quote'} until the emission of string enum values was repaired: it now goes through to_double_quoted)


def kind_of(v: object) -> str | None:
	if isinstance(v, bool):
		return None
	if isinstance(v, int):
		return 'int'
	if isinstance(v, float):
		return 'float'
	if isinstance(v, str):
		return 'str'
	return None


def gen_module(r: random.Random, allow: dict) -> dict:
	"""Returns {'source': text, 'members': [{'enum','name','expr','expected'|None,'features', 'py_error'}]}"""
	lines = ['from enum import Enum', '']
	members = []
	refs_other: list[tuple[str, str, object]] = []
	for ei in range(ENUMS_PER_MODULE):
		ename = f'E{ei}'
		lines += [f'class {ename}(Enum):']
		local: list[tuple[str, str, object]] = []
		env: dict[str, object] = {}
		# an enum is homogeneous (all numbers or all strings): tranp infers ONE type for `.value` of an enum, mixed enums are a
		# type-inference matter (C03), not constant folding
		# ... except for a share of enums that mix strings and ints (never int and float: 100 == 100.0 would alias): every member is
		# folded and emitted with the type of its own value
		enum_kind = r.choices(['num', 'str', 'str+int'], [6, 2, 1])[0] if allow.get('mixed_enum', True) else r.choices(['num', 'str'], [3, 1])[0]
		for mi in range(PER_ENUM):
			name = 'ABCDEFGH'[mi]
			g = Gen(r, local + refs_other, allow)
			depth = r.choice([1, 2, 2, 3, 3, 4, 5])
			if enum_kind == 'str+int':
				g.features.add('mixed_enum')
				expr = g.expr('str' if mi % 2 == 0 else 'int', depth)
			else:
				expr = g.expr(r.choices(['int', 'num', 'float'], [5, 3, 1])[0] if enum_kind == 'num' else 'str', depth)
			expected, py_error = None, None
			try:
				ns = dict(env)
				ns.update(_OTHER_NS)
				value = eval(expr, {'__builtins__': {'int': int, 'float': float, 'str': str}}, ns)  # noqa: S307 (oracle)
				if kind_of(value) is None or (isinstance(value, int) and abs(value) > 1 << 62) or (isinstance(value, float) and (value != value or abs(value) > 1e300)) or (isinstance(value, str) and len(value) > 200):
					py_error = f'value out of generator bounds: {value!r}'
			except Exception as e:  # noqa
				py_error = f'{type(e).__name__}: {e}'
				value = None
			if py_error is None and any(value == v and type(value) is not type(v) for v in env.values()):
				# CPython would make this member an *alias* of the earlier equal one (100 == 100.0) and `.value` would
				# report the other member's type: that is enum aliasing, not constant folding -> outside the quantifier
				py_error = 'would alias an earlier member of another type'
			text = expr
			if py_error is not None:
				# keep the module valid for the remaining members; this member is recorded as outside the quantifier
				value = 9000 + ei * 10 + mi if enum_kind == 'num' or (enum_kind == 'str+int' and mi % 2 == 1) else f'p{ei}{mi}'
				text = repr(value)
			lines.append(f'\t{name} = {text}')
			members.append({'enum': ename, 'name': name, 'expr': expr, 'planted': text, 'py_error': py_error, 'features': sorted(g.features), 'kind': kind_of(value), 'eval_repr': repr(value)})
			env[name] = value
			if py_error is None and enum_kind != 'str+int':
				# members of a mixed enum are not referred to from other expressions: `E.X.value` of a mixed enum is *typed* by the
				# enum's first member (type inference, C03), which is not a matter of folding
				local.append((name, kind_of(value), value, sorted(f for f in g.features if f in TAINT)))
		for (n, k, v), m in zip([(m['name'], m['kind'], env[m['name']]) for m in members[-PER_ENUM:]], members[-PER_ENUM:]):
			if m['py_error'] is None and enum_kind != 'str+int':
				refs_other.append((f'{ename}.{n}.value', k, v, [f for f in m['features'] if f in TAINT]))
		_OTHER_NS[ename] = _EnumNS(env)
		lines.append('')
	_OTHER_NS.clear()
	for m in members:
		ret = {'int': 'int', 'float': 'float', 'str': 'str'}[m['kind']]
		lines += [f'def get_{m["enum"]}_{m["name"]}() -> {ret}:', f'\treturn {m["enum"]}.{m["name"]}.value', '']
	return {'source': '\n'.join(lines), 'members': members}


class _Member:
	def __init__(self, v: object) -> None:
		self.value = v


class _EnumNS:
	def __init__(self, env: dict) -> None:
		for k, v in env.items():
			setattr(self, k, _Member(v))


_OTHER_NS: dict[str, object] = {}


def python_values(source: str) -> dict[tuple[str, str], object]:
	"""The oracle proper: CPython runs the module text; values are read through real enum members."""
	ns: dict = {}
	exec(compile(source, '<c17>', 'exec'), ns)  # noqa: S102
	out = {}
	for k, v in ns.items():
		if isinstance(v, type) and k.startswith('E') and k[1:].isdigit():
			for name in 'ABCDEFGH'[:PER_ENUM]:
				out[(k, name)] = v.__dict__['_member_map_'][name].value if name in v.__dict__.get('_member_map_', {}) else None
	return out


def same(expected: object, got: object) -> bool:
	if isinstance(expected, str):
		return False
	return type(expected) is type(got) and expected == got


def decode_string_token(tok: object) -> tuple[bool, object]:
	if not isinstance(tok, str):
		return False, f'not a string token: {tok!r}'
	try:
		v = ast.literal_eval(tok)
	except Exception as e:  # noqa
		return False, f'malformed string literal {tok!r} ({type(e).__name__})'
	if not isinstance(v, str):
		return False, f'token {tok!r} denotes {type(v).__name__}'
	return True, v


RE_RETURN = re.compile(r'^\s*return (.*);\s*$')


def emitted_returns(text: str) -> dict[str, str]:
	out = {}
	cur = None
	for line in text.split('\n'):
		m = re.match(r'^[\w:<>, ]+ (get_E\d+_[A-H])\(\) \{$', line)
		if m:
			cur = m.group(1)
			continue
		m = RE_RETURN.match(line)
		if m and cur:
			out[cur] = m.group(1)
			cur = None
	return out


def parse_cpp_literal(text: str) -> tuple[bool, object]:
	try:
		return True, ast.literal_eval(text)
	except Exception:  # noqa
		return False, text


def check_module(acc: Acc, case: dict) -> None:
	from rogw.tranp.errors import Errors
	import rogw.tranp.syntax.node.definition as defs
	from rogw.tranp.transpiler.types import Evaluator
	from vf.session import Session
	global _SESSION
	if _SESSION is None:
		_SESSION = Session()
	s = _SESSION
	source, members = case['source'], case['members']
	expected = python_values(source)
	try:
		module = s.reload('__main__', source + '\n')
		enums = {n.symbol.tokens: n for n in module.entrypoint.statements if isinstance(n, defs.Enum)}
	except Errors.Error as e:
		for m in members:
			acc.case(sig_of(m['expr']), None)
			acc.inconc('module rejected before evaluation: ' + type(e).__name__, {'source': source[:400], 'error': str(e)[:300]})
		return
	ev = s.get(Evaluator)
	# phase 1: the evaluator on every member's value node
	phase1: dict[tuple[str, str], tuple[str, object]] = {}
	for m in members:
		if m['py_error'] is not None:
			continue
		try:
			phase1[(m['enum'], m['name'])] = ('value', ev.exec(enums[m['enum']].var_value(m['name'])))
		except Errors.Error as e:
			phase1[(m['enum'], m['name'])] = ('refused:' + type(e).__name__, e)
		except Exception as e:  # noqa
			phase1[(m['enum'], m['name'])] = ('crash', e)
	# phase 2: the emitted text of E.X.value for the members the evaluator accepted (a refused member would abort the whole module)
	head_lines = []
	by_line = {f'\t{m["name"]} = {m["planted"]}': m for m in members}
	cur_enum = ''
	for line in source.split('def get_', 1)[0].split('\n'):
		if line.startswith('class '):
			cur_enum = line[6:].split('(')[0]
		m = next((x for x in members if x['enum'] == cur_enum and line == f'\t{x["name"]} = {x["planted"]}'), None)
		if m is not None and m['py_error'] is None and phase1[(m['enum'], m['name'])][0] != 'value':
			# a refused member's declaration would abort the transpile of the whole module: plant CPython's value as a plain literal
			line = f'\t{m["name"]} = {expected[(m["enum"], m["name"])]!r}'
		head_lines.append(line)
	head = '\n'.join(head_lines)
	body = []
	for m in members:
		if phase1.get((m['enum'], m['name']), ('', None))[0] == 'value':
			ret = {'int': 'int', 'float': 'float', 'str': 'str'}[m['kind']]
			body += [f'def get_{m["enum"]}_{m["name"]}() -> {ret}:', f'\treturn {m["enum"]}.{m["name"]}.value', '']
	transpiled, transpile_error = None, None
	try:
		module2 = s.reload('__main__', head + '\n'.join(body) + '\n')
		transpiled = s.transpiler.transpile(module2.entrypoint)
	except Errors.Error as e:
		transpile_error = e
	except Exception as e:  # noqa
		transpile_error = e
	returns = emitted_returns(transpiled) if transpiled else {}
	for m in members:
		key = (m['enum'], m['name'])
		feats = m['features']
		nontrivial = any(f.startswith(('op:', 'cast:', 'unary:', 'ref', 'group')) for f in feats)
		sample = {'expr': m['expr'], 'python': repr(expected.get(key))}
		if m['py_error'] is not None:
			acc.case(sig_of(m['expr']), None, nontrivial)
			acc.inconc('python has no value: ' + m['py_error'].split(':')[0], {'expr': m['expr'], 'error': m['py_error']})
			continue
		exp = expected[key]
		if repr(exp) != m['eval_repr']:
			# two independent CPython routes (eval of the expression, execution of the module) must agree, else the case is not judged
			acc.case(sig_of(m['expr']), None, nontrivial)
			acc.inconc('oracle routes disagree (enum aliasing)', {'expr': m['expr'], 'eval': m['eval_repr'], 'module': repr(exp)})
			continue
		for f in feats:
			acc.see('feature', f)
		# --- observation 1: LiteralEvaluator.exec on the member's value node
		one = {'source': f'from enum import Enum\n', 'expr': m['expr'], 'features': feats}
		outcome, got = phase1[key]
		if outcome == 'crash':
			acc.violation('evaluator/crash', f'{m["expr"]!r}: {type(got).__name__}: {got} (python value {exp!r})', dict(case_for(m, source)))
		acc.see('evaluator_outcome', outcome)
		sample['evaluator'] = repr(got)[:80]
		if outcome == 'value':
			if isinstance(exp, str):
				ok, v = decode_string_token(got)
				if not ok or v != exp:
					acc.violation('evaluator/wrong-string', f'{m["expr"]!r}: python {exp!r}, evaluator token {got!r} ({v!r})', case_for(m, source))
			elif not same(exp, got):
				acc.violation('evaluator/wrong-value', f'{m["expr"]!r}: python {exp!r} ({type(exp).__name__}), evaluator {got!r} ({type(got).__name__})', case_for(m, source))
		elif outcome.startswith('refused'):
			for f in feats or ['plain']:
				acc.see('refused_with_feature', f)
		# --- observation 2: emitted text of E.X.value
		fn = f'get_{m["enum"]}_{m["name"]}'
		if transpiled is not None and fn in returns and not (set(feats) & TAINT):
			text = returns[fn]
			ok, v = parse_cpp_literal(text)
			acc.see('emitted', 'literal' if ok else 'non-literal')
			sample['emitted'] = text[:80]
			if ok:
				if isinstance(exp, str):
					if not isinstance(v, str) or v != exp:
						acc.violation('emitted/wrong-string', f'{m["expr"]!r}: python {exp!r}, emitted {text!r}', case_for(m, source))
				elif not same(exp, v):
					acc.violation('emitted/wrong-value', f'{m["expr"]!r}: python {exp!r} ({type(exp).__name__}), emitted {text!r}', case_for(m, source))
			else:
				acc.violation('emitted/not-a-literal', f'{m["expr"]!r}: python {exp!r}, emitted {text!r}', case_for(m, source))
		elif transpiled is None:
			acc.see('emitted', 'module-not-transpiled:' + type(transpile_error).__name__)
		acc.case(sig_of(m['expr']), sample, nontrivial)
	if transpile_error is not None and not isinstance(transpile_error, Errors.Error):
		acc.violation('emitted/crash', f'transpile raised {type(transpile_error).__name__}: {transpile_error}', {'source': source, 'members': members})


_SESSION = None


def case_for(m: dict, source: str) -> dict:
	return {'source': source, 'members': [m]}


def classify(v: dict) -> str | None:
	return None


ALLOW_DEFAULT = {'hex_upper_x': True, 'hex_underscore': True, 'str_inner_quote': True, 'str_escape': True, 'str_triple': True, 'str_prefix': False, 'str_of_str': True, 'mixed': True}


# witnesses of the two evaluator defects fixed in /repo (known_findings.json, status=fixed)
FIXED_EXPRS2 = ['"x" + \'a\\\\"b\'', '\'y\' + "c\\\\\'d"', "'''t''' + 'a\\\\\"b'", "'p' + 'a\\\\\"b'", '"q" + "c\\\\\'d"', "'e\\\\' + \"f\""]
FIXED_EXPRS = ["str('a')", '"z" + \'a"b\'', '"""ab""" + \'x\'', 'str(str(12 - 3) + \'\' + "0")', "'q' + str(A)", "\'\'\'z\'\'\' + 'y'"]


def fixed_witness_case(exprs: list[str] | None = None) -> dict:
	exprs = exprs or FIXED_EXPRS
	lines = ['from enum import Enum', '', 'class E0(Enum):']
	members = []
	env: dict = {}
	for n, e in zip('ABCDEF', exprs):
		v = eval(e, {'__builtins__': {'str': str}}, dict(env))  # noqa: S307
		env[n] = v
		lines.append(f'\t{n} = {e}')
		members.append({'enum': 'E0', 'name': n, 'expr': e, 'planted': e, 'py_error': None, 'features': ['str', 'op:+str', 'cast:str', 'str_inner_quote'], 'kind': 'str', 'eval_repr': repr(v)})
	lines.append('')
	for n in 'ABCDEF':
		lines += [f'def get_E0_{n}() -> str:', f'\treturn E0.{n}.value', '']
	return {'source': '\n'.join(lines), 'members': members}


# flat chains of three and more operands over floats that are not exactly representable: the value depends on folding strictly left to
# right, one operator at a time (seeded C17/13: a '+'-only chain folded with sum(), which compensates rounding errors on CPython >= 3.12)
FLOAT_CHAINS = ['0.1 + 0.2 + 0.3', '1e16 + 1.0 + 1.0', '0.1 + 0.2 + 0.3 + 0.4', '0.7 + 0.1 + 0.3 - 0.2', '1 + 0.1 + 0.2', '0.1 * 3 + 0.2 + 0.3']
FLOAT_CHAINS2 = ['0.1 + 0.7 + 0.2 + 1e-9', '1e16 + 1 + 1 + 1.0', '3 + 1e16 + -1e16 + 0.1', '0.3 - 0.1 - 0.1 - 0.1', '0.1 * 0.7 * 0.3', '1.1 + 2.2 + 3.3']


def float_chain_case(exprs: list[str]) -> dict:
	lines = ['from enum import Enum', '', 'class E0(Enum):']
	members = []
	for n, e in zip('ABCDEF', exprs):
		v = eval(e, {'__builtins__': {}}, {})  # noqa: S307
		lines.append(f'\t{n} = {e}')
		members.append({'enum': 'E0', 'name': n, 'expr': e, 'planted': e, 'py_error': None, 'features': ['float', 'float_chain_inexact'], 'kind': 'float', 'eval_repr': repr(v)})
	lines.append('')
	for n in 'ABCDEF':
		lines += [f'def get_E0_{n}() -> float:', f'\treturn E0.{n}.value', '']
	return {'source': '\n'.join(lines), 'members': members}


def mixed_enum_case(first: str) -> dict:
	"""An enum that mixes strings and ints, a string (or an int) first: every member is emitted with the type of its own value."""
	exprs = [("'s' + 'x'", 'str'), ('100 + 23', 'int'), ('"a" + str(4)', 'str'), ('int("40") + 2', 'int'), ('7 * 6', 'int'), ("'q'", 'str')]
	if first == 'int':
		exprs = exprs[1:] + exprs[:1]
	lines = ['from enum import Enum', '', 'class E0(Enum):']
	members = []
	for n, (e, k) in zip('ABCDEF', exprs):
		v = eval(e, {'__builtins__': {'str': str, 'int': int}}, {})  # noqa: S307
		lines.append(f'\t{n} = {e}')
		members.append({'enum': 'E0', 'name': n, 'expr': e, 'planted': e, 'py_error': None, 'features': ['mixed_enum', k], 'kind': k, 'eval_repr': repr(v)})
	lines.append('')
	for n, (e, k) in zip('ABCDEF', exprs):
		lines += [f'def get_E0_{n}() -> {k}:', f'\treturn E0.{n}.value', '']
	return {'source': '\n'.join(lines), 'members': members}


def shard(ctx: Ctx, acc: Acc) -> None:
	if ctx.shard == 0:
		check_module(acc, fixed_witness_case())
		check_module(acc, fixed_witness_case(FIXED_EXPRS2))
		check_module(acc, mixed_enum_case('str'))
		check_module(acc, mixed_enum_case('int'))
		check_module(acc, float_chain_case(FLOAT_CHAINS))
		check_module(acc, float_chain_case(FLOAT_CHAINS2))
	n = N_MODULES[ctx.tier]
	for i in range(n):
		if not ctx.mine(i):
			continue
		if ctx.out_of_time():
			acc.truncated_by_budget = True
			break
		r = ctx.rng('module', i)
		case = gen_module(r, ALLOW_DEFAULT)
		try:
			check_module(acc, case)
		except Exception as e:  # noqa
			acc.extra.setdefault('harness_errors', []).append(fmt_exc(e) + '\nSOURCE:\n' + case['source'][:1500])
			return


def replay(ctx: Ctx, case: dict, acc: Acc) -> None:
	# re-run the whole recorded module but judge only the recorded members
	want = {(m['enum'], m['name']) for m in case['members']}
	full = {'source': case['source'], 'members': case['members']}
	check_module(acc, full)
