"""C09 — every handler receives exactly the results of its own children.

Two monitors on the real Procedure: (a) an identity-valued run (every handler returns its node) in which the keyword arguments
of each handler call are compared with the node's own declared properties, nested exec() calls are started from inside handlers,
and the final result must be the root; (b) the shadow-stack monitor of vf.mon.procedure riding along real Py2Cpp / Reflections
runs on the repository's fixtures and examples.
"""
from __future__ import annotations

import random

from vf.common import Acc, Ctx, sig_of, fmt_exc
from vf.mon import procedure as pmon

LEVEL = 'exploration'
RULE = ('(a) identity run over the node trees of generated modules (vf.gen.syntactic: shapes no typed program has – empty tuples, bare return, with without as, '
	'decorators without arguments, slices with holes) and of the repository\'s modules; (b) real transpiles of the fixture / example modules under the shadow-stack monitor; '
	'one evaluation = one tree processed; distinct = distinct multiset of node classes; non-trivial = the tree holds a node with two or more expandable properties')
ASSUMPTIONS = [
	'nodes are compared by (class, module path, full path): Empty proxies are rebuilt on each access',
	'a tree on which node access itself raises an application error is counted inconclusive (the procedure never got its children)',
]
SHARDS = {'quick': 8, 'thorough': 16}
BUDGET_S = {'quick': 50, 'thorough': 540}
N_TREES = {'quick': 640, 'thorough': 12000}
MIN_OBS = {'handler_calls_checked': {'quick': 10000, 'thorough': 150000}, 'procedure_monitor': {'quick': 2000, 'thorough': 2000}}

REAL_TRANSPILE = [
	'tests.unit.rogw.tranp.implements.cpp.transpiler.fixtures.fixture_py2cpp',
	'tests.unit.rogw.tranp.implements.cpp.transpiler.fixtures.fixture_py2cpp_edge',
	'tests.unit.rogw.tranp.semantics.fixtures.fixture_reflections',
	'tests.unit.rogw.tranp.semantics.reflection.fixtures.fixture_db',
	'example.json',
	'example.FW.string',
	'rogw.tranp.compatible.libralies.classes',
]

_SESSION = None


def session():
	global _SESSION
	if _SESSION is None:
		from vf.session import Session
		_SESSION = Session()
		pmon.install()
	return _SESSION


_PROC = None


class IdentityRun:
	def __init__(self, acc: Acc, case: dict, r: random.Random) -> None:
		from rogw.tranp.semantics.procedure import Procedure
		self.acc = acc
		self.case = case
		self.r = r
		# one long-lived Procedure per process, as the interactive mode and a command-line run over many modules have: every case
		# re-submits '__main__' with another source, so roots of different trees are equal by module path and tree path
		global _PROC
		if _PROC is None:
			_PROC = Procedure()
		self.proc = _PROC
		self.proc.clear_handler()
		self.proc.on('on_fallback', self.handler)
		self.depth = 0
		self.bad = False

	def handler(self, node, **event):
		from rogw.tranp.errors import Errors
		acc = self.acc
		acc.see('handler_calls_checked', type(node).__name__)
		try:
			flat, shape = pmon.expected_children(node)
		except Errors.NodeNotFound as e:
			# the walker reads the same properties when it flattens the tree: a node one of whose declared properties cannot be read
			# is refused there and never reaches a handler
			self.fail('handler-for-node-with-unreadable-property', f'{node!r}: handler called with keys {sorted(event)} although a declared property raises NodeNotFound ({str(e)[:120]})')
			return node
		keys = list(shape.keys())
		if sorted(event.keys()) != sorted(keys):
			self.fail('event-keys', f'{node!r}: handler got keys {sorted(event)}, declared properties {sorted(keys)}')
		else:
			for k in keys:
				want, got = shape[k], event[k]
				if isinstance(want, list):
					if not isinstance(got, list):
						self.fail('single-for-list', f'{node!r}.{k}: got a single value for a list property')
					elif len(got) != len(want) or any(not pmon.same_node(a, b) for a, b in zip(got, want)):
						self.fail('list-mismatch', f'{node!r}.{k}: got {got!r}, property yields {want!r}')
				else:
					if isinstance(got, list):
						self.fail('list-for-single', f'{node!r}.{k}: got a list for a single property')
					elif not pmon.same_node(got, want):
						self.fail('value-mismatch', f'{node!r}.{k}: got {got!r}, property yields {want!r}')
		# nested processing started from inside a handler must not disturb the outer run
		if self.depth < 2 and flat and self.r.random() < 0.08:
			sub = self.r.choice(flat)
			self.depth += 1
			try:
				res = self.proc.exec(sub)
				acc.see('nested_exec', 'ok')
				if not pmon.same_node(res, sub):
					self.fail('nested-result', f'nested exec({sub!r}) from the handler of {node!r} returned {res!r}')
			finally:
				self.depth -= 1
		return node

	def fail(self, kind: str, detail: str) -> None:
		if not self.bad:
			self.acc.violation('identity/' + kind, detail, self.case)
		self.bad = True


def identity_case(acc: Acc, case: dict) -> None:
	from rogw.tranp.errors import Errors
	from vf.trees import read_module_text
	s = session()
	text = case['source'] if case['kind'] == 'source' else read_module_text(case['module'])
	name = '__main__' if case['kind'] == 'source' else case['module']
	try:
		if case['kind'] == 'source':
			s.set_source('__main__', text)
		s.entrypoints.unload(name)
		ep = s.entrypoint(name)
	except Exception as e:  # noqa
		acc.case(None)
		acc.inconc('rejected by tranp grammar: ' + type(e).__name__, (case.get('module') or text)[:200])
		return
	run = IdentityRun(acc, case, random.Random(case.get('seed', 0)))
	classes: list[str] = []
	multi = [False]
	orig_handler = run.handler

	def counting(node, **event):
		classes.append(type(node).__name__)
		if len(event) >= 2:
			multi[0] = True
		return orig_handler(node, **event)
	handled: list[tuple] = []

	def describe(n) -> tuple:
		return (type(n).__name__, n.full_path, n.tokens[:24])

	def recording(node, **event):
		if run.depth == 0:
			handled.append(describe(node))
		return counting(node, **event)
	run.proc.clear_handler()
	run.proc.on('on_fallback', recording)

	def walk_law(label: str) -> None:
		# every node of the tree that was handed in is handled exactly once, children before their parent, the root last
		want = [describe(n) for n in ep.procedural()] + [describe(ep)]
		acc.see('walk_compared', label)
		if handled != want:
			i = next((j for j, (a, b) in enumerate(zip(handled, want)) if a != b), min(len(handled), len(want)))
			run.fail('walk-differs', f'{label}: {len(handled)} handler calls for a tree of {len(want)} nodes; first difference at #{i}: handled {handled[i] if i < len(handled) else None}, tree has {want[i] if i < len(want) else None}')
	try:
		result = run.proc.exec(ep)
		if not pmon.same_node(result, ep):
			run.fail('final-result', f'exec(entrypoint) returned {result!r}')
		walk_law('first run')
		if not run.bad and case.get('seed', 0) % 2 == 0:
			# the same tree again: sub-tree runs from block-owning roots (twice each), then the whole module once more
			import rogw.tranp.syntax.node.definition as defs
			blocks = [n for n in ep.procedural() if isinstance(n, (defs.Function, defs.Class, defs.If, defs.For, defs.While, defs.Try))]
			for sub in run.r.sample(blocks, min(2, len(blocks))):
				for _ in range(2):
					run.depth += 1
					try:
						res = run.proc.exec(sub)
					finally:
						run.depth -= 1
					acc.see('nested_exec', 'sub-root-repeat')
					if not pmon.same_node(res, sub):
						run.fail('sub-root-result', f'exec({sub!r}) returned {res!r}')
			handled.clear()
			result = run.proc.exec(ep)
			if not pmon.same_node(result, ep):
				run.fail('final-result', f'second exec(entrypoint) returned {result!r}')
			walk_law('second run over the same tree')
		acc.see('identity_run', 'completed')
	except Errors.Error as e:
		if type(e) is Errors.Logic:
			# raised by the procedure itself: 'Invalid number of stacks' / 'Stack is empty'
			run.fail('logic-error', f'Procedure.exec raised Errors.Logic: {str(e)[:400]}')
			pmon.drain(acc, lambda: case)
			acc.case(None)
			return
		acc.see('identity_run', 'node-access-error:' + type(e).__name__)
		acc.inconc('node access raises ' + type(e).__name__, {'text': text[:300], 'error': str(e)[:200]})
	except RecursionError:
		acc.inconc('recursion limit', text[:100])
	pmon.drain(acc, lambda: case)
	acc.case(sig_of(sorted(set(classes))) if classes else None, {'kind': case['kind'], 'source': text[:240]} if case['kind'] == 'source' else {'kind': 'module', 'module': case['module']}, multi[0])


# in-memory modules for the real Py2Cpp run: handlers that ask Reflections for types while the tree is being processed
# (members of instantiated generic bases read through subclasses, several levels of inheritance, properties, enums)
TRANSPILE_SOURCES = [
	"from typing import Generic, TypeVar\n\nT = TypeVar('T')\n\n\nclass Base(Generic[T]):\n\tvalue: T\n\n\tdef __init__(self, value: T) -> None:\n\t\tself.value = value\n\n\nclass Sub(Base[int]):\n\tdef get(self) -> int:\n\t\treturn self.value\n\n\nclass Other(Base[str]):\n\tdef size(self) -> int:\n\t\treturn len(self.value)\n\n\nclass Leaf(Sub):\n\tdef twice(self) -> int:\n\t\tv = self.value\n\t\treturn v + self.get()\n\n\ndef use(n: int) -> int:\n\ts = Sub(n)\n\tl = Leaf(n)\n\treturn s.value + l.value + l.twice()\n",
	"from enum import Enum\n\n\nclass Tone(Enum):\n\tLOW = 1\n\tHIGH = 2\n\n\nclass P:\n\tn: int\n\n\tdef __init__(self, n: int) -> None:\n\t\tself.n = n\n\n\t@property\n\tdef twice(self) -> int:\n\t\treturn self.n * 2\n\n\ndef f(p: P) -> int:\n\txs = [p.twice, Tone.HIGH.value]\n\ttry:\n\t\ty = xs[0]\n\texcept RuntimeError as e:\n\t\ty = 0\n\treturn y if p.n > 1 else len(xs)\n",
]


def transpile_case(acc: Acc, module: str, source: str | None = None) -> None:
	"""(b) real Py2Cpp + Reflections run under the shadow-stack monitor."""
	from rogw.tranp.errors import Errors
	s = session()
	case = {'kind': 'transpile', 'module': module, 'source': source}
	try:
		if source is not None:
			s.set_source(module, source)
		s.modules.unload(module)
		s.transpile(module)
		acc.see('real_transpile', 'ok')
	except Errors.Error as e:
		acc.see('real_transpile', 'error:' + type(e).__name__)
	except FileNotFoundError:
		acc.see('real_transpile', 'module-file-missing')
	pmon.drain(acc, lambda: case)
	acc.case('transpile:' + module, case, True)


SPECIAL = [
	'class Base:\n\tdef __init__(self, n: int, m: int = 2) -> None:\n\t\tself.n = n\nclass Sub(Base):\n\tdef __init__(self, n: int) -> None:\n\t\tsuper(Sub, self).__init__(n, 3)\n\t\tsuper().__init__(n)\n\tdef m(self) -> int:\n\t\treturn super(Sub, self).n\n',
	'def f(a: int, b: int, c: int = 1, d: int = 2) -> int:\n\tx = a - b - 1\n\ty = a + b + c + d\n\treturn x - y - x\n',
	'a = b = n * 2\nx = n + 1\nc = d = e = x\n',
	# modules that consist of string literals only (a package __init__ with nothing but its doc string), doc strings everywhere
	'"""doc"""\n', "'a'\n'b'\n", '"""doc"""\nx = 1\n', 'def f() -> None:\n\t"""doc"""\n\tx = 1\n\t"""not a doc"""\nclass A:\n\t"""doc"""\n\tdef m(self) -> None:\n\t\t"""doc"""\n', '', '\n', 'pass\n', '...\n',
	'x = ()\n', 'def f() -> None:\n\treturn\n', 'with a:\n\tpass\n', '@deco\ndef f() -> None:\n\t...\n', 'x = a[:]\ny = a[::2]\n',
	'class A:\n\tdef __init__(self) -> None:\n\t\tself.x: int = 0\n\t@property\n\tdef p(self) -> int:\n\t\treturn self.x\n',
	'x = [i for i in a]\ny = {k: v for k, v in b if k}\n', 'try:\n\tpass\nexcept A:\n\tpass\n', 'def f() -> None:\n\tx = 1\n\ttry:\n\t\ty = 2\n\texcept E:\n\t\tz = 3\n\texcept F as e:\n\t\tw = 4\n', 'f(a, k=1, *b, **c)\n', 'x = lambda: 1\n',
]


def classify(v: dict) -> str | None:
	return None


def shard(ctx: Ctx, acc: Acc) -> None:
	from vf.gen.syntactic import SynGen
	from vf.trees import real_module_paths
	n = N_TREES[ctx.tier]
	real = real_module_paths()
	if ctx.shard == 0:
		for i, text in enumerate(SPECIAL):
			identity_case(acc, {'kind': 'source', 'source': text, 'seed': i})
	for j, m in enumerate(REAL_TRANSPILE + TRANSPILE_SOURCES):
		if j % ctx.nshards == ctx.shard:
			try:
				if j >= len(REAL_TRANSPILE):
					# twice: the second run meets whatever the first one left on the nodes
					transpile_case(acc, '__main__', m)
					transpile_case(acc, '__main__', m)
					continue
				transpile_case(acc, m)
			except Exception as e:  # noqa
				acc.extra.setdefault('harness_errors', []).append(fmt_exc(e) + m)
				return
	for i in range(n):
		if not ctx.mine(i):
			continue
		if ctx.out_of_time():
			acc.truncated_by_budget = True
			break
		r = ctx.rng('tree', i)
		if i % 10 < 9:
			g = SynGen(r, max_depth=r.choice([1, 2, 3, 4]))
			case = {'kind': 'source', 'source': g.module(), 'seed': i}
		else:
			case = {'kind': 'module', 'module': real[(i // 10) % len(real)], 'seed': i}
		try:
			identity_case(acc, case)
		except Exception as e:  # noqa
			acc.extra.setdefault('harness_errors', []).append(fmt_exc(e) + repr(case)[:600])
			return


def replay(ctx: Ctx, case: dict, acc: Acc) -> None:
	if case.get('kind') == 'transpile':
		transpile_case(acc, case['module'], case.get('source'))
	else:
		identity_case(acc, case)
