"""C18 — fragment splitting helpers respect bracket and quote nesting.

Monitor shape: the real helpers are called on generated balanced fragments; an independent
scanner (vf.oracle.brackets) knows depth/quote state at every index and judges the results.
"""
from __future__ import annotations

import random

from vf.common import Acc, Ctx, sig_of
from vf.oracle import brackets as ob

LEVEL = 'exploration'
RULE = ('fragments are grown recursively from identifiers, numbers, quoted strings (contents may hold '
	'delimiters and brackets) and nested ()[]{}<> groups up to depth 6, delimiters , : = and blank at '
	'first/last/doubled/absent positions; a case is one (law, fragment, delimiter/kind) triple; distinct = '
	'distinct triple; non-trivial = the fragment holds at least one group or quoted string')
ASSUMPTIONS = [
	'unbalanced < or > (comparison operators, ->) are outside the quantifier and not generated',
	'pieces are compared up to blanks, as the statement says',
]
SHARDS = {'quick': 8, 'thorough': 16}
BUDGET_S = {'quick': 40, 'thorough': 420}
N_CASES = {'quick': 6000, 'thorough': 240000}
MIN_OBS = {'law': {'quick': 1500, 'thorough': 30000}}

KINDS = ['()', '[]', '{}', '<>']
DELIMS = [',', ':', '=', ' ']
IDENT_HEADS = 'abcxyzABC_'
IDENT_TAIL = 'abcxyz019_'


NO_SCOPE = [False]


def ident(r: random.Random) -> str:
	n = r.choice([1, 1, 2, 3, 6])
	s = r.choice(IDENT_HEADS) + ''.join(r.choice(IDENT_TAIL) for _ in range(n - 1))
	if r.random() < 0.15 and not NO_SCOPE[0]:
		s = s + '::' + r.choice(IDENT_HEADS) + 'q'
	if r.random() < 0.1:
		s = s + '.' + r.choice(IDENT_HEADS)
	return s


def number(r: random.Random) -> str:
	return r.choice(['0', '1', '42', '3.5', '0x1F', '100'])


def quoted(r: random.Random, tags: set[str], allow: dict) -> str:
	q = r.choice('"\'') if allow.get('single_quote', True) else '"'
	cls = r.choices(['plain', 'delims', 'balbr', 'unbalbr', 'otherquote', 'escquote'], [4, 4, 2, 2 if allow.get('unbalbr') else 0, 1 if allow.get('otherquote') else 0, 1 if allow.get('escquote') else 0])[0]
	if cls == 'plain':
		body = ''.join(r.choice('abc xyz01') for _ in range(r.randint(0, 5)))
	elif cls == 'delims':
		body = ''.join(r.choice('ab,:= ') for _ in range(r.randint(1, 6)))
	elif cls == 'balbr':
		k = r.choice(KINDS)
		body = r.choice(['a', '']) + k[0] + r.choice(['b, c', '', 'x']) + k[1]
	elif cls == 'unbalbr':
		body = r.choice(['a', '', ', ']) + r.choice('()[]{}<>') + r.choice(['', 'b'])
	elif cls == 'otherquote':
		body = 'it' + ('"' if q == "'" else "'") + 's'
	else:
		body = 'a\\' + q + 'b'
	tags.add('str:' + cls)
	return q + body + q


def element(r: random.Random, depth: int, tags: set[str], allow: dict) -> str:
	x = r.random()
	if depth <= 0 or x < 0.35:
		y = r.random()
		if y < 0.55:
			return ident(r)
		if y < 0.7:
			return number(r)
		return quoted(r, tags, allow)
	kind = r.choice([k for k in KINDS if k in allow.get('kinds', KINDS)])
	tags.add('grp:' + kind)
	head = ident(r) if (kind in ('()', '<>', '[]') and r.random() < 0.7) or kind == '<>' else ''
	inner = fragment(r, depth - 1, tags, allow, r.choice([', ', ',', ': ', ' = ', ' ']))
	s = head + kind[0] + inner + kind[1]
	if r.random() < 0.2:
		s += r.choice(['.', '']) + element(r, depth - 1, tags, allow)
	return s


def fragment(r: random.Random, depth: int, tags: set[str], allow: dict, sep: str) -> str:
	n = r.choice([0, 1, 1, 2, 2, 3, 4])
	parts = [element(r, depth, tags, allow) for _ in range(n)]
	return sep.join(parts)


def top_fragment(r: random.Random, delim: str, tags: set[str], allow: dict) -> str:
	depth = r.choice([0, 1, 2, 3, 4, 6])
	n = r.choice([1, 2, 2, 3, 4, 5])
	parts = [element(r, depth, tags, allow) for _ in range(n)]
	seps = []
	for _ in range(n - 1):
		if delim == ' ':
			seps.append(r.choice([' ', ' ', '  ']))
		else:
			seps.append(r.choice([delim, delim + ' ', ' ' + delim + ' ', delim + delim if r.random() < 0.1 else delim]))
	s = ''.join(p + q for p, q in zip(parts, seps + ['']))
	edge = r.random()
	if edge < 0.08:
		s = delim + s
		tags.add('edge:first')
	elif edge < 0.16:
		s = s + delim
		tags.add('edge:last')
	elif edge < 0.2:
		s = ' ' + s + ' '
		tags.add('edge:blank')
	return s


# ---------------------------------------------------------------------------- laws

def law_break_separator(text: str, delim: str) -> tuple[str, str] | None:
	from rogw.tranp.view.helper.block import BlockParser
	try:
		pieces = BlockParser.break_separator(text, delim)
	except Exception as e:
		return 'break_separator/raise', f'{type(e).__name__}: {e}'
	for p in pieces:
		if not ob.balanced(p):
			return 'break_separator/unbalanced-piece', f'pieces={pieces!r}'
	keep = delim == ' '
	if ob.squeeze(delim.join(pieces), keep) != ob.squeeze(text, keep):
		return 'break_separator/rejoin', f'pieces={pieces!r}'
	expect = [p.strip(' ') for p in ob.split_top(text, delim)]
	if text.strip(' ') == '' or (len(text) > 0 and expect and expect[-1] == '' and False):
		pass
	if text == '':
		expect = []
	# a trailing empty remainder is not emitted by the helper (begin == len(text) cannot happen) – identical rule in split_top
	if pieces != expect:
		return 'break_separator/cuts', f'pieces={pieces!r} expected={expect!r}'
	return None


def law_break_last_block(prefix: str, inner: str, kind: str) -> tuple[str, str] | None:
	from rogw.tranp.view.helper.block import BlockParser
	text = prefix + kind[0] + inner + kind[1]
	try:
		got = BlockParser.break_last_block(text, kind)
	except Exception as e:
		return 'break_last_block/raise', f'{type(e).__name__}: {e}'
	if got != (prefix, inner):
		return 'break_last_block/value', f'got={got!r} expected={(prefix, inner)!r}'
	return None


def law_parse_bracket(text: str, kind: str) -> tuple[str, str] | None:
	from rogw.tranp.view.helper.block import BlockParser
	try:
		got = BlockParser.parse_bracket(text, kind)
	except Exception as e:
		return 'parse_bracket/raise', f'{type(e).__name__}: {e}'
	expect = [text[a:b + 1] for a, b, _ in ob.groups(text, kind)]
	if got != expect:
		return 'parse_bracket/value', f'got={got!r} expected={expect!r}'
	return None


def law_parse_pair(text: str, kind: str, delim: str, expect: list[tuple[str, str]]) -> tuple[str, str] | None:
	from rogw.tranp.view.helper.block import BlockParser
	try:
		got = BlockParser.parse_pair(text, kind, delim)
	except Exception as e:
		return 'parse_pair/raise', f'{type(e).__name__}: {e}'
	if got != expect:
		return 'parse_pair/value', f'got={got!r} expected={expect!r}'
	return None


def law_decorator(path: str, pos: list[str], labelled: list[tuple[str, str]]) -> tuple[str, str] | None:
	from rogw.tranp.view.helper.decorator import DecoratorHelper
	args = pos + [f'{k}={v}' for k, v in labelled]
	text = path + ('(' + ', '.join(args) + ')' if args or True else '')
	try:
		h = DecoratorHelper(text)
		got_path, got_args, join_args = h.path, dict(h.args), h.join_args
	except Exception as e:
		return 'decorator/raise', f'{type(e).__name__}: {e}'
	expect: dict[str, str] = {}
	for i, a in enumerate(pos):
		expect[str(i)] = a
	for k, v in labelled:
		expect[k] = v
	if got_path != path:
		return 'decorator/path', f'got={got_path!r} expected={path!r}'
	if got_args != expect or list(got_args) != list(expect):
		return 'decorator/args', f'got={got_args!r} expected={expect!r}'
	if join_args != ', '.join(args):
		return 'decorator/join_args', f'got={join_args!r}'
	return None


def law_param(var_type: str, name: str, default: str) -> tuple[str, str] | None:
	from rogw.tranp.implements.cpp.view.cpp_view_helper import CppViewHelper
	text = f'{var_type} {name}' + (f' = {default}' if default else '')
	try:
		p = CppViewHelper.Param.parse(text)
	except Exception as e:
		return 'param/raise', f'{type(e).__name__}: {e}'
	if (ob.squeeze(p.var_type, True), p.symbol, p.default_value) != (ob.squeeze(var_type, True), name, default):
		return 'param/value', f'got={(p.var_type, p.symbol, p.default_value)!r} expected={(var_type, name, default)!r}'
	return None


def law_is_quoted(body_cls: str, r: random.Random) -> tuple[str, tuple[str, str] | None]:
	from rogw.tranp.lang.string import is_quoted_literal
	q = r.choice('"\'')
	a = ''.join(r.choice('ab ,(') for _ in range(r.randint(0, 4)))
	b = ''.join(r.choice('cd )=') for _ in range(r.randint(0, 4)))
	if body_cls == 'one':
		text, expect = q + a + q, True
	elif body_cls == 'escaped':
		text, expect = q + a + '\\' + q + b + q, True
	elif body_cls == 'two':
		text, expect = q + a + q + ' + ' + q + b + q, False
	else:
		text, expect = a + q + b + q, (a == '' )
	try:
		got = is_quoted_literal(text, q)
	except Exception as e:
		return text, ('is_quoted_literal/raise', f'{type(e).__name__}: {e}')
	if got != expect:
		return text, ('is_quoted_literal/value', f'text={text!r} got={got} expected={expect}')
	return text, None


# ---------------------------------------------------------------------------- cases

def gen_case(r: random.Random) -> dict:
	NO_SCOPE[0] = False
	law = r.choices(['sep', 'last', 'bracket', 'pair', 'deco', 'param', 'isq'], [8, 4, 2, 2, 3, 3, 1])[0]
	tags: set[str] = set()
	allow = {'unbalbr': r.random() < 0.25, 'otherquote': r.random() < 0.1, 'escquote': r.random() < 0.1}
	case: dict = {'law': law}
	if law == 'sep':
		d = r.choice(DELIMS)
		case.update(delim=d, text=top_fragment(r, d, tags, allow))
	elif law == 'last':
		kind = r.choice(KINDS)
		depth = r.choice([0, 1, 2, 3, 5])
		prefix = ''.join(element(r, depth, tags, allow) + r.choice(['', '.', '']) for _ in range(r.choice([0, 1, 1, 2])))
		inner = fragment(r, depth, tags, allow, r.choice([', ', ' ']))
		case.update(kind=kind, prefix=prefix, inner=inner)
	elif law == 'bracket':
		kind = r.choice(KINDS)
		others = [k for k in KINDS if k != kind]

		def other_group(dep: int) -> str:
			a2 = dict(allow, kinds=others)
			return element(r, dep, tags, a2)

		def same(dep: int) -> str:
			n = r.choice([0, 1, 2, 3])
			elems = []
			for _ in range(n):
				y = r.random()
				if dep > 0 and y < 0.4:
					elems.append(same(dep - 1))
				elif y < 0.7:
					elems.append(other_group(2))
				else:
					elems.append(ident(r))
			tags.add('grp:' + kind)
			return r.choice(['', ident(r)]) + kind[0] + ', '.join(elems) + kind[1]
		case.update(kind=kind, text=same(2))
	elif law == 'pair':
		kind = r.choice(['{}', '()', '<>', '[]'])
		d = r.choice([':', ','])
		NO_SCOPE[0] = d == ':'
		a2 = dict(allow, kinds=[k for k in KINDS if k != kind], single_quote=True)
		k1, v1 = element(r, 2, tags, a2), element(r, 2, tags, a2)
		sep = d + ' '
		name = r.choice(['', ident(r)])
		if r.random() < 0.5:
			case.update(kind=kind, delim=d, text=f'{name}{kind[0]}{k1}{sep}{v1}{kind[1]}', expect=[[k1, v1]])
		else:
			k2, v2 = element(r, 1, tags, a2), element(r, 1, tags, a2)
			inner = f'{kind[0]}{k2}{sep}{v2}{kind[1]}'
			case.update(kind=kind, delim=d, text=f'{name}{kind[0]}{k1}{sep}{inner}{kind[1]}', expect=[[k1, inner], [k2, v2]])
		tags.add('grp:' + kind)
	elif law == 'deco':
		path = '.'.join(ident(r).replace('::', '_').replace('.', '_') for _ in range(r.choice([1, 2, 3])))
		a2 = dict(allow)
		pos = [element(r, r.choice([0, 1, 3]), tags, a2) for _ in range(r.choice([0, 1, 2, 3]))]
		def value() -> str:
			v = element(r, r.choice([0, 1, 3]), tags, a2)
			if r.random() < 0.3:
				# the value of a keyword argument is everything after the FIRST top-level '=': it may hold comparison operators itself
				tags.add('deco:value-with-equals')
				v = f'{v} {r.choice(["==", ">=", "<=", "!="])} {element(r, r.choice([0, 1]), tags, a2)}'
			return v
		lab = [(r.choice(['a', 'key', 'b_1']) + str(i), value()) for i in range(r.choice([0, 0, 1, 2]))]
		case.update(path=path, pos=pos, labelled=[list(x) for x in lab])
	elif law == 'param':
		base = r.choice(['int', 'std::string', 'A', 'float', 'bool'])
		y = r.random()
		if y < 0.3:
			t = base
		elif y < 0.5:
			t = f'std::vector<{base}>'
			tags.add('grp:<>')
		elif y < 0.7:
			t = f'std::map<std::string, {base}>'
			tags.add('grp:<>')
		elif y < 0.8:
			t = f'const std::map<std::string, std::vector<{base}>>&'
			tags.add('grp:<>')
		elif y < 0.9:
			t = f'{base}*'
		else:
			t = f'std::function<{base}(int, std::string)>'
			tags.add('grp:<>')
		default = ''
		if r.random() < 0.5:
			default = element(r, r.choice([0, 1, 2]), tags, dict(allow))
		case.update(var_type=t, name=ident(r).split('::')[0].split('.')[0], default=default)
	else:
		case.update(cls=r.choice(['one', 'escaped', 'two', 'prefix']), sub=r.getrandbits(32))
	case['tags'] = sorted(tags)
	return case


def run_case(case: dict) -> tuple[str, str] | None:
	law = case['law']
	if law == 'sep':
		return law_break_separator(case['text'], case['delim'])
	if law == 'last':
		return law_break_last_block(case['prefix'], case['inner'], case['kind'])
	if law == 'bracket':
		return law_parse_bracket(case['text'], case['kind'])
	if law == 'pair':
		return law_parse_pair(case['text'], case['kind'], case['delim'], [tuple(x) for x in case['expect']])
	if law == 'deco':
		return law_decorator(case['path'], case['pos'], [tuple(x) for x in case['labelled']])
	if law == 'param':
		return law_param(case['var_type'], case['name'], case['default'])
	text, res = law_is_quoted(case['cls'], random.Random(case['sub']))
	case['text'] = text
	return res


def valid(case: dict) -> bool:
	"""Precondition of the quantifier: every generated piece of text is balanced per the oracle."""
	texts = [v for k, v in case.items() if isinstance(v, str) and k in ('text', 'prefix', 'inner', 'default')]
	texts += list(case.get('pos', [])) + [v for _, v in case.get('labelled', [])]
	return all(ob.balanced(t) for t in texts)


FIXED = [
	{'law': 'deco', 'path': 'Embed.when', 'pos': [], 'labelled': [['cond', 'a == b'], ['when', 'x.size() >= 2']], 'tags': ['deco:value-with-equals']},
	{'law': 'deco', 'path': 'Embed.alias', 'pos': ['f(1)'], 'labelled': [], 'tags': []},
	{'law': 'deco', 'path': 'p', 'pos': ['a', 'g(h(2))'], 'labelled': [['k', 'f(x)']], 'tags': []},
	{'law': 'sep', 'delim': ',', 'text': 'a,', 'tags': []},
	{'law': 'sep', 'delim': '=', 'text': 'int n =', 'tags': []},
	{'law': 'sep', 'delim': ',', 'text': '1, f(2, b=3), l[0]', 'tags': []},
	{'law': 'sep', 'delim': ' ', 'text': 'std::map<std::string, int> dsn', 'tags': []},
	{'law': 'sep', 'delim': '=', 'text': 'std::map<std::string, int> dsn = {}', 'tags': []},
	{'law': 'sep', 'delim': ',', 'text': 'a, b', 'tags': []},
	{'law': 'sep', 'delim': ',', 'text': 'f(a), ",", g', 'tags': []},
	{'law': 'last', 'kind': '[]', 'prefix': 'a[0].b[1]', 'inner': '2', 'tags': []},
	{'law': 'last', 'kind': '()', 'prefix': 'a().b(1, 2[3]).c', 'inner': '{}', 'tags': []},
	{'law': 'bracket', 'kind': '<>', 'text': '<a, <b>, <c>>', 'tags': []},
	{'law': 'pair', 'kind': '()', 'delim': ',', 'text': 'a(b, "c, d")', 'expect': [['b', '"c, d"']], 'tags': []},
	{'law': 'deco', 'path': 'Embed.alias', 'pos': ['"A"'], 'labelled': [['prefix', 'true']], 'tags': []},
	{'law': 'param', 'var_type': 'const std::string&', 'name': 's', 'default': '""', 'tags': []},
	# witnesses of defects fixed in /repo (known_findings.json, status=fixed): a regression is a fresh violation
	{'law': 'sep', 'delim': ',', 'text': 'cy , x, "(b" , \'b xxz\'', 'tags': ['str:unbalbr']},
	{'law': 'sep', 'delim': ' ', 'text': '{} "it\'s" {Cz::aq} y(_0a.B)', 'tags': ['str:otherquote']},
	{'law': 'last', 'kind': '<>', 'prefix': '', 'inner': 'Bz<bc>."a>"', 'tags': ['str:unbalbr']},
	{'law': 'bracket', 'kind': '()', 'text': '(yb(()))', 'tags': ['grp:()']},
	{'law': 'bracket', 'kind': '<>', 'text': '<<<Czz0cc>>>', 'tags': ['grp:<>']},
	{'law': 'deco', 'path': 'y', 'pos': ['{A11 = azbcy1}'], 'labelled': [], 'tags': ['grp:{}']},
	{'law': 'deco', 'path': 'z._z', 'pos': ["'a=abb'"], 'labelled': [['k', 'f(a=1)']], 'tags': ['str:delims']},
]


def classify(v: dict) -> str | None:
	return None  # no open finding for C18 (three defects were fixed in /repo, see known_findings.json)


def check_one(acc: Acc, case: dict) -> None:
	if not valid(case):
		acc.inconc('generated text not balanced (outside quantifier)', case)
		acc.case(None)
		return
	res = run_case(case)
	nontrivial = any(t.startswith(('grp:', 'str:')) for t in case.get('tags', [])) or case['law'] in ('isq',)
	acc.case(sig_of(sorted((k, repr(v)) for k, v in case.items())), case, nontrivial)
	acc.see('law', case['law'])
	for t in case.get('tags', []):
		acc.see('fragment_feature', t)
	if case['law'] == 'sep':
		acc.see('delimiter', repr(case['delim']))
	if 'kind' in case:
		acc.see('bracket_kind', case['kind'])
	if res is not None:
		acc.violation(res[0], f'{res[1]} case={case!r}', case)


def shard(ctx: Ctx, acc: Acc) -> None:
	if ctx.shard == 0:
		for c in FIXED:
			check_one(acc, dict(c))
	n = N_CASES[ctx.tier]
	for i in range(n):
		if not ctx.mine(i):
			continue
		if i % 256 == 0 and ctx.out_of_time():
			acc.truncated_by_budget = True
			break
		r = ctx.rng('case', i)
		check_one(acc, gen_case(r))


def replay(ctx: Ctx, case: dict, acc: Acc) -> None:
	check_one(acc, dict(case))
