"""C04 — output is deterministic and independent of session history.

History monitor: every transpile(m) inside a long in-process session (load / transpile / transpile again / unload / reload / interactive
re-submissions / failing submissions / type queries in random order) is compared with a reference produced by a fresh process with a
cold private cache; symbol rows and node classes of every *other* loaded module are snapshotted before and after each operation;
the real command line is run under several hash seeds and target orders and must write identical files.
"""
from __future__ import annotations

import itertools
import re
import os
import random
import shutil
import subprocess
import tempfile

from vf import cli
from vf.common import Acc, Ctx, PY, REPO, ROOT, sig_of, fmt_exc
from vf.mon import procedure as pmon

LEVEL = 'exploration'
RULE = ('pool: a chain or diamond project of on-disk modules plus an unrelated module (vf.gen.histproj with random variants and generated filler functions), in-memory __main__ submissions '
	'(3 valid variants, syntax errors, type errors) and a library stub; histories of 25-60 operations; one evaluation = one operation of a history (transpiles are compared with the fresh-process '
	'reference, every operation with the before/after snapshots of the other modules); distinct = distinct (operation, loaded set) pair; non-trivial = the operation happened after at least one unload or failed submission; '
	'plus CLI runs under PYTHONHASHSEED in {0, 1, 4242, derived} x permutations of the -i targets')
ASSUMPTIONS = [
	'a module is unloaded only together with the loaded modules that import it (Modules.unload does not promise that an importer keeps working after its dependency is gone)',
	'the reference of a module is defined only when the fresh process succeeds',
]
SHARDS = {'quick': 16, 'thorough': 16}
BUDGET_S = {'quick': 40, 'thorough': 840}
TIMEOUT_S = {'quick': 600, 'thorough': 7200}
N_HISTORIES = {'quick': 16, 'thorough': 220}
MIN_OBS = {'transpile_compared': {'quick': 60, 'thorough': 1500}, 'independence_checked': {'quick': 100, 'thorough': 3000}}

MAIN_VARIANTS = [
	'def main_f(a: int) -> int:\n\tb = a + 1\n\treturn b * 2\n',
	'class M:\n\tn: int\n\n\tdef __init__(self, n: int) -> None:\n\t\tself.n = n\n\n\tdef get(self) -> int:\n\t\treturn self.n\n\n\ndef main_f(a: int) -> int:\n\tm = M(a)\n\treturn m.get()\n',
	'from proj.leaf import base_val, Item\n\n\ndef main_f() -> int:\n\tv = base_val()\n\tit = Item(v)\n\tw = it.value\n\treturn it.count\n',
	# the same names as in the variants above, with other types
	'class M:\n\tn: str\n\n\tdef __init__(self, n: str) -> None:\n\t\tself.n = n\n\n\tdef get(self) -> str:\n\t\treturn self.n\n\n\ndef main_f(a: str) -> str:\n\tm = M(a)\n\tg = m.get()\n\tk = m.n\n\treturn g\n',
	'class M:\n\tn: float\n\n\tdef __init__(self, n: float) -> None:\n\t\tself.n = n\n\n\tdef get(self) -> list[float]:\n\t\treturn [self.n]\n\n\ndef main_f(a: float) -> float:\n\tm = M(a)\n\tg = m.get()\n\tk = m.n\n\treturn k\n',
	'def main_f(a: int) -> int:\n\txs: list[int] = [a, a]\n\tds: dict[str, int] = {\'k\': a}\n\treturn len(xs) + len(ds)\n',
	# submissions that declare nothing (statements only): two of them in a row must not answer with the text of the first
	"print('first')\n",
	"print('second', 3)\nprint(4)\n",
]
NODECL = (6, 7)
MAIN_BAD = [
	'def main_f(a: int) -> int:\n\treturn a +\n',
	'def main_f(a: int) -> int:\n\treturn undefined_thing + a\n',
	'def main_f(:\n',
	'def main_f(a: int) -> int:\n\tx, y = a\n\treturn x\n',
	# refused while the text is being emitted (after some of it has been rendered)
	'def main_f(xs: list[int]) -> int:\n\tys: list[int] = xs\n\treturn undefined_thing\n',
	'def main_f(d: dict[str, int]) -> int:\n\tn = len(d)\n\treturn d.nothing\n',
	'def main_f(a: int) -> int:\n\tb = a + 1\n\treturn b.no_attr\n',
	# refused while the module is being loaded: an import that cannot be loaded, a base class nobody defines
	'from proj.nowhere import thing\n\n\ndef main_f(a: int) -> int:\n\treturn a\n',
	'class Orphan(NoSuchBase):\n\tn: int\n\n\ndef main_f(a: int) -> int:\n\treturn a\n',
]
LOAD_BAD = (7, 8)
LIB = 'rogw.tranp.compatible.libralies.type'
LIB_CLASSES = 'rogw.tranp.compatible.libralies.classes'


def env_for_ref(config: str | None = None) -> dict:
	env = dict(os.environ)
	if config:
		env['VF_C04_CONFIG'] = config
	else:
		env.pop('VF_C04_CONFIG', None)
	env['PYTHONPATH'] = os.pathsep.join([ROOT, REPO, os.path.join(ROOT, '.deps', 'py313')])
	env['PYTHONDONTWRITEBYTECODE'] = '1'
	env['PYTHONHASHSEED'] = '0'
	return env


def references(workdir: str, src_dir: str, modules: list[str], mains: list[str], config: str | None = None) -> dict[str, str | None]:
	"""One fresh process with its own empty cache directory per module."""
	procs = []
	for i, m in enumerate(modules):
		cache = os.path.join(workdir, f'refcache-{i}')
		procs.append((m, subprocess.Popen([PY, '-X', 'utf8', '-m', 'vf.props.c04_ref', src_dir, cache, m], stdout=subprocess.PIPE, stderr=subprocess.PIPE, cwd=REPO, env=env_for_ref(config), text=True)))
	for j, text in enumerate(mains):
		path = os.path.join(workdir, f'main-{j}.py')
		with open(path, 'w', encoding='utf-8') as f:
			f.write(text)
		cache = os.path.join(workdir, f'refcache-main-{j}')
		procs.append((f'__main__#{j}', subprocess.Popen([PY, '-X', 'utf8', '-m', 'vf.props.c04_ref', src_dir, cache, '__main__', path], stdout=subprocess.PIPE, stderr=subprocess.PIPE, cwd=REPO, env=env_for_ref(config), text=True)))
	out: dict[str, str | None] = {}
	for m, p in procs:
		try:
			so, se = p.communicate(timeout=300)
		except subprocess.TimeoutExpired:
			p.kill()
			out[m] = None
			continue
		out[m] = so[3:] if so.startswith('OK\n') else None
	return out


def depends_config(workdir: str, hid: int) -> str:
	"""A user configuration that uses the documented view hook emit_depends: a template directory in front of the stock one whose
	list-type template asks for `#include <vector>` (the stock templates never call the hook, so the per-transpile list of requested
	includes would otherwise stay empty). The session and every fresh-process reference use the same configuration."""
	tdir = os.path.join(workdir, f'tpl{hid}')
	os.makedirs(os.path.join(tdir, 'type'), exist_ok=True)
	with open(os.path.join(REPO, 'data/cpp/template/type/list_type.j2'), encoding='utf-8') as f:
		stock = f.read()
	with open(os.path.join(tdir, 'type', 'list_type.j2'), 'w', encoding='utf-8') as f:
		f.write("{{- emit_depends('<vector>') -}}\n" + stock)
	with open(os.path.join(REPO, 'data/cpp/template/type/dict_type.j2'), encoding='utf-8') as f:
		stock = f.read()
	with open(os.path.join(tdir, 'type', 'dict_type.j2'), 'w', encoding='utf-8') as f:
		f.write("{{- emit_depends('<map>') -}}\n" + stock)
	import yaml
	with open(os.path.join(REPO, 'example/config.yml'), encoding='utf-8') as f:
		cfg = yaml.safe_load(f)
	cfg['template_dirs'] = [tdir] + [os.path.join(REPO, d) for d in cfg['template_dirs']]
	path = os.path.join(workdir, f'config{hid}.yml')
	with open(path, 'w', encoding='utf-8') as f:
		yaml.safe_dump(cfg, f)
	return path


def snapshot_others(s, loaded: list[str], skip: set[str]) -> dict:
	from vf.props.c14 import describe
	snap = {}
	for m in loaded:
		if m in skip:
			continue
		rows = tuple(sorted((k, str(describe(sym, 4))) for k, sym in s.db.items(m)))
		try:
			ep = s.entrypoints.load(m)
			classes = tuple((n.full_path, type(n).__name__) for n in [*ep.procedural(), ep])
		except Exception as e:  # noqa
			classes = ('raise:' + type(e).__name__,)
		snap[m] = (sig_of(rows), sig_of(classes), len(rows), len(classes))
	return snap


def run_history(acc: Acc, r: random.Random, workdir: str, hid: int, n_ops: int) -> None:
	from rogw.tranp.app.env import SourceEnvPath
	from rogw.tranp.errors import Errors
	from vf.gen.histproj import HistProject
	from vf.gen.typed import TypedGen
	from vf.session import Session
	hp = HistProject(r.choice(['chain', 'diamond', 'deep']))
	for _ in range(r.choice([0, 1, 3])):
		k, v = hp.random_edit(r)
		hp.variants[k] = v
	src_dir = os.path.join(workdir, f'src{hid}')
	sources = hp.sources()
	# generated filler in the unrelated module: different programs per history
	sources[hp.names['u']] = TypedGen(random.Random(r.getrandbits(32)), size=3).program(n_funcs=2).source + '\n\n' + sources[hp.names['u']]
	cli.write_sources(src_dir, sources)
	mods = hp.modules()
	config = depends_config(workdir, hid) if hid % 2 == 0 else None
	acc.see('configuration', 'user template calling emit_depends' if config else 'stock')
	refs = references(workdir, src_dir, mods + [LIB], MAIN_VARIANTS, config)
	if any(refs.get(m) is None for m in mods):
		acc.inconc('fresh-process reference failed for a project module (project does not transpile)', [m for m in mods if refs.get(m) is None])
		return
	s = Session(cache_dir=os.path.join(workdir, f'sesscache{hid}'), extra_definitions={'rogw.tranp.app.env.SourceEnvPath': lambda: SourceEnvPath.instantiate([src_dir])}, config=config or 'example/config.yml')
	pmon.install()
	importers = {hp.names[k]: [hp.names[x] for x in hp.names if k in hp.closure_of(x)] for k in hp.names}
	loaded: list[str] = []
	main_variant: int | None = None
	disturbed = False
	log: list = []
	case_base = {'kind': 'history', 'seed': hid, 'shape': hp.shape, 'variants': hp.variants}

	def bad(kind: str, detail: str) -> None:
		acc.violation(kind, f'{detail}\nhistory: {log}', dict(case_base, log=log))

	def loaded_now() -> list[str]:
		return [m.path for m in s.modules.loaded() if m.path in mods or m.path == '__main__']

	# scripted opening of every history: text that needs an include request, a submission refused while text is being emitted, then
	# modules that need no include - whatever the first two left behind must not show in the others
	forced = [('transpile', hp.names['r']), ('submit-bad', '__main__'), ('submit', '__main__'), ('transpile', hp.names['l']), ('transpile', hp.names['u']), ('reload-library', LIB_CLASSES), ('transpile', hp.names['r']), ('transpile', hp.names['l']),
		# two submissions without declarations in a row; a submission refused at load time followed by accepted ones; the class stubs unloaded alone
		('submit', '__main__', NODECL[0]), ('submit', '__main__', NODECL[1]), ('submit-bad', '__main__', LOAD_BAD[hid % 2]), ('submit', '__main__', hid % 2), ('submit-bad', '__main__', LOAD_BAD[(hid + 1) % 2]), ('submit', '__main__', 3),
		('unload-library', LIB_CLASSES), ('submit', '__main__', 5), ('transpile', hp.names['r']),
		# the leaf unloaded alone while its importers stay loaded, then an importer transpiled: the listed open finding, met on every run
		('load', hp.names['r']), ('unload', hp.names['l'], 'alone'), ('transpile', hp.names['r'])]
	for step in range(n_ops + len(forced)):
		x = r.random()
		before = None
		target: str
		forced_index = None
		if step < len(forced):
			op, target, *rest = forced[step]
			forced_index = rest[0] if rest else None
			x = 2.0
		elif x < 0.3:
			target = r.choice(mods)
			op = 'transpile'
		elif x < 0.4:
			target, op = r.choice(mods), 'load'
		elif x < 0.52:
			cand = [m for m in loaded_now() if m in mods]
			if not cand:
				continue
			target, op = r.choice(cand), 'unload'
		elif x < 0.72:
			target, op = '__main__', 'submit'
		elif x < 0.82:
			target, op = '__main__', 'submit-bad'
		elif x < 0.87:
			target, op = LIB, 'transpile'
		elif x < 0.9:
			# the stub library of the built-in classes is unloaded and loaded again: symbols of modules loaded earlier keep referring to it
			target, op = LIB_CLASSES, 'reload-library'
		elif x < 1.0:
			target, op = r.choice(mods), 'type-queries'
		log.append([op, target])
		touched = {target}
		if op == 'unload':
			touched |= set(importers[target])
			if main_variant == 2:
				touched.add('__main__')
		if op in ('transpile', 'load'):
			# loading pulls in the import closure of the target
			key = next((k for k, v in hp.names.items() if v == target), None)
			if key:
				touched |= {hp.names[d] for d in hp.closure_of(key)}
		if op in ('submit', 'submit-bad'):
			touched |= {hp.names['l']}
		before = snapshot_others(s, loaded_now(), touched)
		try:
			if op == 'transpile':
				out = s.transpile(target)
				acc.see('transpile_compared', 'module' if target != LIB else 'library')
				if refs.get(target) is not None and out != refs[target]:
					a, b = out.split('\n'), refs[target].split('\n')
					i = next((j for j in range(min(len(a), len(b))) if a[j] != b[j]), min(len(a), len(b)))
					bad('differs-from-fresh-process', f'{target} line {i + 1}: in session {a[i] if i < len(a) else "<eof>"!r}, fresh process {b[i] if i < len(b) else "<eof>"!r}')
					return
				if r.random() < 0.3:
					out2 = s.transpile(target)
					acc.see('transpile_compared', 'repeat')
					if out2 != out:
						bad('repeat-differs', f'{target}: second transpile in a row differs')
						return
			elif op == 'load':
				s.load(target)
			elif op == 'reload-library':
				s.unload(target)
				s.load(target)
				disturbed = True
			elif op == 'unload-library':
				# the stub library alone; the next load of any module brings it back (Modules loads the libraries with every module)
				s.unload(target)
				disturbed = True
			elif op == 'unload':
				if main_variant == 2 and '__main__' in loaded_now():
					s.unload('__main__')
					main_variant = None
				if forced_index == 'alone' or (forced_index is None and r.random() < 0.3):
					# the dependency alone: its importers stay loaded (open finding importer-unusable-after-dependency-unload)
					acc.see('op_variant', 'unload-dependency-alone')
					log[-1].append('alone')
				else:
					for imp in importers[target]:
						s.unload(imp)
				s.unload(target)
				disturbed = True
			elif op == 'submit':
				j = r.randrange(len(MAIN_VARIANTS)) if forced_index is None else forced_index
				s.reload('__main__', MAIN_VARIANTS[j] + '\n')
				main_variant = j
				out = s.transpile('__main__')
				acc.see('transpile_compared', 'main')
				ref = refs.get(f'__main__#{j}')
				if ref is not None and out != ref:
					a, b = out.split('\n'), ref.split('\n')
					i = next((k2 for k2 in range(min(len(a), len(b))) if a[k2] != b[k2]), min(len(a), len(b)))
					bad('main-differs-from-fresh-process', f'__main__ variant {j} line {i + 1}: in session {a[i] if i < len(a) else "<eof>"!r}, fresh process {b[i] if i < len(b) else "<eof>"!r}')
					return
			elif op == 'submit-bad':
				try:
					s.reload('__main__', (MAIN_BAD[forced_index] if forced_index is not None else MAIN_BAD[4 + step % 3] if step < len(forced) else r.choice(MAIN_BAD)) + '\n')
					s.transpile('__main__')
				except Errors.Error:
					acc.see('failed_submission', 'app-error')
				except Exception as e:  # noqa  (C07's business; here only the after-effects matter)
					acc.see('failed_submission', 'other:' + type(e).__name__)
				main_variant = None
				disturbed = True
				try:
					s.unload('__main__')
				except Exception:  # noqa
					pass
			else:
				m = s.load(target)
				nodes = [n for n in m.entrypoint.procedural()]
				for n in r.sample(nodes, min(12, len(nodes))):
					try:
						s.reflections.type_of(n)
					except Errors.Error:
						pass
				acc.see('type_queries', 'done')
		except Errors.Error as e:
			if op in ('transpile', 'load', 'submit', 'type-queries'):
				key = next((k for k, v in hp.names.items() if v == target), None)
				closure = {hp.names[d] for d in hp.closure_of(key)} if key else ({hp.names['l']} if main_variant == 2 or op == 'submit' else set())
				now = set(loaded_now())
				loaded_importers = [m for m in now if m in mods and any(hp.names[d] not in now for d in hp.closure_of(next(k for k, v in hp.names.items() if v == m)))]
				missing = sorted(closure - now) if (target in now or op != 'load') else []
				bad('operation-fails-in-session', f'{op} {target}: {type(e).__name__}: {str(e)[:300]} (the fresh process succeeds) [missing-dependencies={missing} importers-with-missing-dependencies={sorted(loaded_importers)}]')
				if not (missing or loaded_importers):
					return
				# resynchronise: load what is missing again and go on with the history
				for m in mods:
					try:
						s.load(m)
					except Errors.Error:
						return
				continue
		after = snapshot_others(s, [m for m in loaded_now()], touched)
		acc.see('independence_checked', op, len(before))
		for m, snap in before.items():
			if m in after and after[m] != snap:
				what = 'symbol rows' if after[m][0] != snap[0] else 'node classes'
				bad('other-module-changed', f'{op} {target} changed the {what} of {m} ({snap[2:]} -> {after[m][2:]})')
				return
		acc.case(sig_of((op, tuple(sorted(loaded_now())))), {'op': op, 'target': target, 'loaded': loaded_now()} if step == 5 else None, disturbed)
	pmon.drain(acc, lambda: dict(case_base, log=log))


def cli_determinism(acc: Acc, r: random.Random, workdir: str, seed: int) -> None:
	from vf.gen.histproj import HistProject
	hp = HistProject(r.choice(['chain', 'diamond', 'deep']))
	for _ in range(2):
		k, v = hp.random_edit(r)
		hp.variants[k] = v
	files = [m.replace('.', '/') + '.py' for m in hp.modules()]
	orders = [files, list(reversed(files))] + [r.sample(files, len(files)) for _ in range(2)]
	seeds = ['0', '1', '4242', str(seed * 7919 % 100000 + 2)]
	base = None
	for i, (hs, order) in enumerate(itertools.product(seeds, orders[:2]) if True else []):
		root = os.path.join(workdir, f'cli{i}')
		cli.write_sources(root, hp.sources())
		cli.write_config(root, ['proj/**/*.py'])
		args = ['-f']
		for f in order:
			args += ['-i', f]
		p = cli.run_cli(root, args, hashseed=hs)
		case = {'kind': 'cli', 'shape': hp.shape, 'variants': hp.variants, 'hashseed': hs, 'order': order}
		acc.see('cli_runs', f'hashseed={hs}')
		if cli.failed(p):
			acc.violation('cli-run-fails', f'PYTHONHASHSEED={hs} order={order}: {(p.stdout + p.stderr)[-400:]}', case)
			return
		outs = cli.read_outputs(root)
		shutil.rmtree(root, ignore_errors=True)
		acc.case(sig_of(('cli', hs, tuple(order))), {'hashseed': hs, 'order': order} if i == 1 else None, i > 0)
		if base is None:
			base = outs
		elif outs != base:
			k = next(k for k in sorted(set(outs) | set(base)) if outs.get(k) != base.get(k))
			acc.violation('cli-output-depends-on-seed-or-order', f'{k} differs between PYTHONHASHSEED=0/default order and PYTHONHASHSEED={hs} order={order}', case)
			return


def cli_target_orders(acc: Acc, r: random.Random, workdir: str) -> None:
	"""Every order in which the modules of a dependency chain can be listed as targets: each run succeeds and writes the same files."""
	from vf.gen.histproj import HistProject
	hp = HistProject('chain')
	k, v = hp.random_edit(r)
	hp.variants[k] = v
	chain = [hp.names[x].replace('.', '/') + '.py' for x in ('l', 'm', 'r')]
	other = hp.names['u'].replace('.', '/') + '.py'
	base = None
	for i, perm in enumerate(itertools.permutations(chain)):
		order = list(perm) + [other] if i % 2 == 0 else [other] + list(perm)
		root = os.path.join(workdir, f'cliorder{i}')
		cli.write_sources(root, hp.sources())
		cli.write_config(root, ['proj/**/*.py'])
		args = ['-f']
		for f in order:
			args += ['-i', f]
		p = cli.run_cli(root, args, hashseed='0')
		case = {'kind': 'cli-orders', 'variants': hp.variants, 'order': order}
		acc.see('cli_runs', 'target-order-permutation')
		outs = cli.read_outputs(root)
		shutil.rmtree(root, ignore_errors=True)
		acc.case(sig_of(('cli-order', tuple(order))), {'order': order} if i == 1 else None, True)
		if cli.failed(p):
			acc.violation('cli-run-fails', f'order={order}: {(p.stdout + p.stderr)[-400:]}', case)
			return
		if base is None:
			base = outs
		elif outs != base:
			kk = next(x for x in sorted(set(outs) | set(base)) if outs.get(x) != base.get(x))
			acc.violation('cli-output-depends-on-seed-or-order', f'{kk} differs between target orders (order={order})', case)
			return


def classify(v: dict) -> str | None:
	"""Open finding 'importer-unusable-after-dependency-unload': Modules.unload(dependency) leaves its importers loaded; the next operation
	that needs the dependency's symbols through such an importer raises UnresolvedSymbol / SymbolNotDefined, because Modules.load(importer)
	returns the cached importer without loading its imports again. Matched only when the harness's own bookkeeping says that a module of
	the failing module's import closure (or of a still loaded importer) is not loaded at that moment, and the error is one of those two."""
	if v['kind'] != 'operation-fails-in-session':
		return None
	m = re.search(r'\[missing-dependencies=\[(.*?)\] importers-with-missing-dependencies=\[(.*?)\]\]', v['detail'])
	if m and (m.group(1).strip() or m.group(2).strip()) and re.search(r': (UnresolvedSymbol|SymbolNotDefined): ', v['detail']):
		return 'importer-unusable-after-dependency-unload'
	return None


def shard(ctx: Ctx, acc: Acc) -> None:
	workdir = tempfile.mkdtemp(prefix='vf-c04-')
	try:
		if ctx.shard == 2 % ctx.nshards:
			try:
				cli_target_orders(acc, ctx.rng('cli-orders'), workdir)
			except Exception as e:  # noqa
				acc.extra.setdefault('harness_errors', []).append(fmt_exc(e))
				return
		if ctx.shard in (0, 1) or not ctx.quick:
			try:
				cli_determinism(acc, ctx.rng('cli', ctx.shard), workdir, ctx.seed + ctx.shard)
			except Exception as e:  # noqa
				acc.extra.setdefault('harness_errors', []).append(fmt_exc(e))
				return
		n = N_HISTORIES[ctx.tier]
		for i in range(n):
			if not ctx.mine(i):
				continue
			if ctx.out_of_time():
				acc.truncated_by_budget = True
				break
			try:
				run_history(acc, ctx.rng('history', i), workdir, i, 25 if ctx.quick else 60)
			except Exception as e:  # noqa
				acc.extra.setdefault('harness_errors', []).append(fmt_exc(e))
				return
	finally:
		shutil.rmtree(workdir, ignore_errors=True)


def replay(ctx: Ctx, case: dict, acc: Acc) -> None:
	workdir = tempfile.mkdtemp(prefix='vf-c04-replay-')
	try:
		if case.get('kind') == 'cli-orders':
			cli_target_orders(acc, ctx.rng('cli-orders'), workdir)
		elif case.get('kind') == 'cli':
			cli_determinism(acc, ctx.rng('cli', 0), workdir, ctx.seed)
		else:
			run_history(acc, ctx.rng('history', case.get('seed', 0)), workdir, case.get('seed', 0), 60)
	finally:
		shutil.rmtree(workdir, ignore_errors=True)
