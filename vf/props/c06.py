"""C06 — non-forced runs leave every output equal to a forced run.

Histories of edit / touch / run / run -f / delete-output / corrupt-header / age-header over scratch projects are driven through the
real command line; after every non-forced run all outputs are compared with a forced run on a pristine copy of the current sources,
files that needed no regeneration must be left untouched (mtime, inode), the header of every output is read back with the real
MetaHeader and compared with one built from the harness's own md5 of the source, and the output path mapping must stay injective.
"""
from __future__ import annotations

import hashlib
import os
import random
import re
import shutil
import tempfile

from vf import cli
from vf.common import Acc, Ctx, sig_of, fmt_exc
from vf.history import History
from vf.props.c05 import diff_outputs

LEVEL = 'exploration'
RULE = ('projects as in C05 (chain / diamond + unrelated module); histories of 6-10 steps over edit(module, variant), touch, run, run -f, delete-output, corrupt-header, age-header (older '
	'application / transpiler version written into the header); one evaluation = one non-forced run judged against the forced run of a pristine copy; distinct = distinct (project state, '
	'pending changes); non-trivial = at least one module needed regeneration and at least one did not; plus 300-3000 random output_dirs rule lists for the path mapping')
ASSUMPTIONS = [
	'the output of a failed run is not compared',
	'output_dirs rule lists are injective by construction (distinct, non-nested output directories per rule), so any collision is the mapping\'s own',
]
SHARDS = {'quick': 16, 'thorough': 16}
BUDGET_S = {'quick': 40, 'thorough': 840}
TIMEOUT_S = {'quick': 600, 'thorough': 7200}
N_HISTORIES = {'quick': 16, 'thorough': 200}
MIN_OBS = {'nonforced_runs_judged': {'quick': 12, 'thorough': 200}}


def header_expected(root: str, module: str) -> str:
	from rogw.tranp.data.meta.header import MetaHeader
	from rogw.tranp.data.version import Versions
	with open(os.path.join(root, module.replace('.', os.sep) + '.py'), 'rb') as f:
		digest = hashlib.md5(f.read()).hexdigest()
	return MetaHeader({'hash': digest, 'path': module}, {'version': Versions.py2cpp, 'module': 'rogw.tranp.implements.cpp.transpiler.py2cpp.Py2Cpp'}).to_json()


def run_history(acc: Acc, r: random.Random, workdir: str, hid: int, n_steps: int) -> None:
	from rogw.tranp.data.meta.header import MetaHeader
	shape = r.choice(['chain', 'diamond', 'deep', 'deep'])
	h = History(r, shape, workdir, f'h{hid}')
	keys = list(h.hp.names)
	p, _ = h.run(False)
	if cli.failed(p):
		acc.inconc('initial run failed (harness/project)', (p.stdout + p.stderr)[-400:])
		return
	# per module: sequence number at which its output was last written, and the content written then
	written_at = {k: h.edit_seq for k in keys}
	written_text = {k: h.outputs().get(h.output_rel(k)) for k in keys}
	# sources (own and of the import closure) at the moment the output of k was last written: the classification below is by content, not by edit count
	written_src = {k: {d: h.hp.source(d) for d in [k, *h.hp.closure_of(k)]} for k in keys}
	for step in range(n_steps):
		pending_regen: set[str] = set()   # modules whose recorded header differs from the current one (must be regenerated)
		n_ops = r.choice([1, 1, 2, 3])
		for _ in range(n_ops):
			x = r.random()
			if x < 0.45:
				key, variant = h.hp.random_edit(r)
				h.edit(key, variant)
				acc.see('op', 'edit:' + key)
			elif x < 0.55:
				h.touch(r.choice(keys))
				acc.see('op', 'touch')
			elif x < 0.67:
				k = r.choice(keys)
				h.delete_output(k)
				acc.see('op', 'delete-output')
			elif x < 0.77:
				k = r.choice(keys)
				path = h.output_path(k)
				if os.path.exists(path):
					with open(path, 'rb') as f:
						lines = f.read().decode('utf-8').split('\n')
					lines[0] = r.choice(['// no header', '', '// @tranp.meta: {"version":"1.0.0"', '/* garbage */'])
					with open(path, 'wb') as f:
						f.write('\n'.join(lines).encode('utf-8'))
					h.log.append(['corrupt-header', k])
					acc.see('op', 'corrupt-header')
			elif x < 0.87:
				k = r.choice(keys)
				path = h.output_path(k)
				if os.path.exists(path):
					with open(path, 'rb') as f:
						text = f.read().decode('utf-8')
					which = r.choice(['app', 'transpiler', 'app-patch-level', 'transpiler-patch-level'])
					if which == 'app':
						text = text.replace('{"version":"1.0.0","module":{', '{"version":"0.9.9","module":{', 1)
					elif which == 'app-patch-level':
						# recorded by a release that differs in the last component only
						text = re.sub(r'^(// @tranp.meta: \{"version":"\d+\.\d+\.)\d+"', r'\g<1>7"', text, count=1)
					elif which == 'transpiler-patch-level':
						text = re.sub(r'("transpiler":\{"version":"\d+\.\d+\.)\d+"', r'\g<1>9"', text, count=1)
					else:
						text = re.sub(r'"transpiler":\{"version":"[^"]+"', '"transpiler":{"version":"0.0.1"', text, count=1)
					with open(path, 'wb') as f:
						f.write(text.encode('utf-8'))
					h.log.append(['age-header', k, which])
					acc.see('op', 'age-header:' + which)
			else:
				p, _ = h.run(True)
				acc.see('op', 'run -f')
				if not cli.failed(p):
					outs = h.outputs()
					for k in keys:
						written_at[k] = h.edit_seq
						written_src[k] = {d: h.hp.source(d) for d in [k, *h.hp.closure_of(k)]}
						written_text[k] = outs.get(h.output_rel(k))
		# which modules must a non-forced run regenerate? decided by the harness from the files on disk (header vs current header)
		before_text = h.outputs()
		for k in keys:
			rel = h.output_rel(k)
			if rel not in before_text:
				pending_regen.add(k)
				continue
			try:
				old = MetaHeader.try_from_content(before_text[rel])
			except Exception:  # noqa
				old = None
			if old is None or old.to_json() != header_expected(h.root, h.hp.names[k]):
				pending_regen.add(k)
		before_stat = cli.stat_outputs(h.root)
		p, _ = h.run(False)
		case = dict({'kind': 'history', 'seed': hid}, **h.describe())
		if cli.failed(p):
			cold, cold_failed, _ = h.cold_reference(workdir, f'{hid}-{step}')
			if not cold_failed:
				acc.violation('nonforced-run-fails', f'non-forced run fails where a forced run on a pristine copy succeeds: {(p.stdout + p.stderr)[-500:]}', case)
			else:
				acc.inconc('project does not transpile', None)
			return
		cold, cold_failed, cold_msg = h.cold_reference(workdir, f'{hid}-{step}')
		if cold_failed:
			acc.inconc('forced reference run failed (project does not transpile)', cold_msg)
			return
		after_text = h.outputs()
		after_stat = cli.stat_outputs(h.root)
		acc.see('nonforced_runs_judged', shape)
		nontrivial = 0 < len(pending_regen) < len(keys)
		acc.case(sig_of((shape, sorted((k, sorted(v.items())) for k, v in h.hp.variants.items()), sorted(pending_regen))), {'shape': shape, 'last_ops': h.log[-5:], 'must_regenerate': sorted(pending_regen)} if step == 1 else None, nontrivial)
		# (1) headers read back to the value written
		for k in keys:
			rel = h.output_rel(k)
			if rel in after_text:
				acc.see('headers_read_back', 'ok')
				got = MetaHeader.try_from_content(after_text[rel])
				if got is None or got.to_json() != header_expected(h.root, h.hp.names[k]):
					acc.violation('header-roundtrip', f'{rel}: header read back {got.to_json() if got else None} != expected {header_expected(h.root, h.hp.names[k])}', case)
					return
		# (2) untouched files are left untouched, stale headers are regenerated
		for k in keys:
			rel = h.output_rel(k)
			if k in pending_regen:
				acc.see('regeneration', 'required')
				if rel not in after_text:
					acc.violation('not-regenerated', f'{rel} needed regeneration (header differs / file missing) but does not exist after the run', case)
					return
			else:
				acc.see('regeneration', 'not-required')
				if before_stat.get(rel) != after_stat.get(rel):
					acc.violation('rewritten-without-need', f'{rel}: recorded header equals the current one but the file was rewritten (mtime/inode {before_stat.get(rel)} -> {after_stat.get(rel)})', case)
					return
		# (3) every output equals the forced run on a pristine copy
		stale_seen = False
		if set(after_text) != set(cold):
			acc.violation('file-set-differs', f'non-forced {sorted(after_text)} vs forced {sorted(cold)}', case)
			return
		for k in keys:
			rel = h.output_rel(k)
			if after_text[rel] != cold[rel]:
				# classify for the known-findings predicate: stale although only something in the import closure changed
				own_unchanged = h.hp.source(k) == written_src[k][k]
				closure_changed = [d for d in h.hp.closure_of(k) if h.hp.source(d) != written_src[k][d]]
				untouched = after_text[rel] == written_text[k]
				d = diff_outputs({rel: after_text[rel]}, {rel: cold[rel]})
				tag = f'[own-source-unchanged={own_unchanged} closure-changed={sorted(closure_changed)} content-as-last-written={untouched}]'
				acc.violation('stale-output', f'{d} {tag}\nhistory: {h.log}', case)
				stale_seen = True
		if stale_seen:
			# resynchronise with a forced run so that the rest of the history is still explored
			p, _ = h.run(True)
			if cli.failed(p):
				return
			outs = h.outputs()
			for k in keys:
				written_at[k] = h.edit_seq
				written_src[k] = {d: h.hp.source(d) for d in [k, *h.hp.closure_of(k)]}
				written_text[k] = outs.get(h.output_rel(k))
			continue
		for k in keys:
			if k in pending_regen or after_text[h.output_rel(k)] != before_text.get(h.output_rel(k)):
				written_at[k] = h.edit_seq
				written_src[k] = {d: h.hp.source(d) for d in [k, *h.hp.closure_of(k)]}
				written_text[k] = after_text[h.output_rel(k)]


def path_mapping(acc: Acc, r: random.Random, n: int) -> None:
	from rogw.tranp.bin.transpile import Runner
	class Cfg:
		output_dirs: list[str] = []
		output_language = 'cpp:h'
	class Dummy:
		config = Cfg()
	for i in range(n):
		dirs = r.sample(['a', 'b', 'ab', 'a.b', 'a_b', 'pkg', 'pkg/sub', 'pkg/sub2', 'x', 'xy'], r.choice([1, 2, 3]))
		rules = []
		for j, d in enumerate(dirs):
			rules.append(f'{d}/*:o{j}' if r.random() < 0.5 else f'{d}/:o{j}')
		rules.append('out')
		Dummy.config.output_dirs = rules
		files = []
		base_dirs = ['a', 'b', 'ab', 'a.b', 'aXb', 'a_b', 'pkg', 'pkg/sub', 'pkg/sub2', 'pkg/subx', 'x', 'xy', '']
		# the text of a rule's prefix occurring again deeper in the path (src/core/src/vec.py beside src/core/vec.py)
		for d in dirs:
			base_dirs += [f'{d}/{d}', f'{d}/core/{d}', f'{d}/core', f'core/{d}']
			# sibling directories whose name continues the rule's directory name (src/ beside srcgen/): 'srcgen/m' and 'src/gen/m' are two modules
			base_dirs += [f'{d}/{e[len(d):].lstrip("/")}' for e in list(base_dirs) if e.startswith(d) and e != d and e[len(d):].strip('/')]
		for d in dict.fromkeys(base_dirs):
			for fn in ['m.h', 'n.h', 'sub.h']:
				files.append(f'{d}/{fn}' if d else fn)

		def model(f: str) -> str:
			# the documented reading of output_dirs: first rule that applies; '<dir>/*:<out>' keeps the whole path below <out>,
			# '<dir>/:<out>' replaces that leading directory by <out>; the last entry is the fallback
			for rule in rules[:-1]:
				cond, o = rule.split(':')
				if cond.endswith('*'):
					if f.startswith(cond[:-1]) and len(f) > len(cond[:-1]):
						return os.path.normpath(os.path.join(o, f))
				elif f.startswith(cond):
					return os.path.normpath(os.path.join(o, f[len(cond):]))
			return os.path.normpath(os.path.join(rules[-1], f))
		seen: dict[str, str] = {}
		acc.see('path_rule_lists', 'checked')
		for f in files:
			try:
				out = os.path.normpath(Runner.fetch_output_path(Dummy(), f))  # type: ignore
			except Exception as e:  # noqa
				acc.violation('path-mapping-raises', f'{type(e).__name__}: {e} for {f} under {rules}', {'kind': 'paths', 'rules': rules})
				return
			# the statement only demands that distinct modules never share a path; agreement with a literal reading of the rule list is
			# recorded, not judged (a '.' in a glob rule is read as a regex wildcard by the repository: 'a.b/*' also takes 'aXb/...')
			acc.see('path_mapping', 'as-literal-reading' if out == model(f) else 'other-than-literal-reading')
			if out in seen:
				acc.violation('output-path-collision', f'{seen[out]} and {f} both map to {out} under {rules}', {'kind': 'paths', 'rules': rules, 'files': [seen[out], f]})
				return
			seen[out] = f
	acc.case('paths', {'kind': 'paths', 'rule_lists': n}, True)


def classify(v: dict) -> str | None:
	"""Open finding 'dependant-not-regenerated-after-import-edit': the header hash covers the module's own source only, so a non-forced run
	leaves an importer untouched although a module in its import closure changed. Matched only when the harness's own history bookkeeping says:
	the stale module's source is unchanged since its output was last written AND something in its import closure changed since then AND the
	file on disk is byte-identical to what was written then."""
	if v['kind'] != 'stale-output':
		return None
	m = re.search(r'\[own-source-unchanged=(\w+) closure-changed=\[(.*?)\] content-as-last-written=(\w+)\]', v['detail'])
	if m and m.group(1) == 'True' and m.group(2).strip() and m.group(3) == 'True':
		return 'dependant-not-regenerated-after-import-edit'
	return None


def witness(acc: Acc, workdir: str) -> None:
	"""Committed witness of the open finding: chain; run; edit leaf type; run (non-forced)."""
	class Scripted(random.Random):
		pass
	h = History(random.Random(0), 'chain', workdir, 'witness')
	h.run(False)
	text0 = h.outputs()
	h.edit('l', {'t': 'str'})
	p, _ = h.run(False)
	cold, cold_failed, _ = h.cold_reference(workdir, 'witness')
	after = h.outputs()
	acc.see('nonforced_runs_judged', 'witness')
	acc.case('witness', {'history': h.log}, True)
	for k in ('m', 'r'):
		rel = h.output_rel(k)
		if not cold_failed and after[rel] != cold[rel]:
			d = diff_outputs({rel: after[rel]}, {rel: cold[rel]})
			untouched = after[rel] == text0[rel]
			acc.violation('stale-output', f'{d} [own-source-unchanged=True closure-changed=[\'l\'] content-as-last-written={untouched}]\nhistory: {h.log}', dict({'kind': 'witness'}, **h.describe()))


SHAPE_SRC = 'class Shape:\n\tw: int\n\th: int\n\n\tdef __init__(self, w: int, h: int) -> None:\n\t\tself.w = w\n\t\tself.h = h\n\n\tdef area(self) -> int:\n\t\treturn self.w * self.h\n'
KEEP_SRC = 'def keep(n: int) -> int:\n\treturn n + 1\n'
OTHER_SRC = 'def other(n: int) -> int:\n\treturn n * 2\n'


def relocation(acc: Acc, workdir: str, scenario: str) -> None:
	"""Two source directories whose outputs land in shared places: an output path is taken over by another module with the same text
	(module moved between the directories / the output_dirs rules swapped). The recorded module path differs, so the file is regenerated."""
	root = os.path.join(workdir, 'reloc-' + scenario)
	os.makedirs(root)
	globs = ['lib_a/**/*.py', 'lib_b/**/*.py']
	if scenario == 'move':
		sources = {'lib_a.shape': SHAPE_SRC, 'lib_a.keep': KEEP_SRC, 'lib_b.other': OTHER_SRC}
		dirs = ['lib_a/:out/', 'lib_b/:out/', 'out/']
	else:
		sources = {'lib_a.util': KEEP_SRC, 'lib_b.util': KEEP_SRC, 'lib_a.shape': SHAPE_SRC}
		dirs = ['lib_a/:out/x/', 'lib_b/:out/y/', 'out/']
	cli.write_sources(root, sources)
	cli.write_config(root, globs, dirs)
	p = cli.run_cli(root, [])
	if cli.failed(p):
		acc.inconc('relocation project: initial run failed', (p.stdout + p.stderr)[-300:])
		return
	first = cli.read_outputs(root)
	if scenario == 'move':
		os.rename(os.path.join(root, 'lib_a', 'shape.py'), os.path.join(root, 'lib_b', 'shape.py'))
		sources = {'lib_b.shape': SHAPE_SRC, 'lib_a.keep': KEEP_SRC, 'lib_b.other': OTHER_SRC}
	else:
		dirs = ['lib_a/:out/y/', 'lib_b/:out/x/', 'out/']
		cli.write_config(root, globs, dirs)
	p = cli.run_cli(root, [])
	ref = os.path.join(workdir, 'reloc-ref-' + scenario)
	os.makedirs(ref)
	cli.write_sources(ref, sources)
	cli.write_config(ref, globs, dirs)
	pf = cli.run_cli(ref, ['-f'])
	case = {'kind': 'relocation', 'scenario': scenario}
	acc.see('nonforced_runs_judged', 'relocation:' + scenario)
	acc.case('relocation:' + scenario, {'scenario': scenario, 'output_dirs': dirs, 'outputs_first_run': sorted(first)}, True)
	if cli.failed(pf):
		acc.inconc('relocation project: forced reference run failed', (pf.stdout + pf.stderr)[-300:])
		return
	if cli.failed(p):
		acc.violation('nonforced-run-fails', f'relocation/{scenario}: {(p.stdout + p.stderr)[-400:]}', case)
		return
	after, forced = cli.read_outputs(root), cli.read_outputs(ref)
	for rel in sorted(set(forced)):
		if after.get(rel) != forced[rel]:
			d = diff_outputs({rel: after.get(rel, '')}, {rel: forced[rel]})
			acc.violation('stale-output-after-relocation', f'{scenario}: {d}', case)
			return


def aged_headers(acc: Acc, workdir: str) -> None:
	"""Outputs recorded by another release (application or transpiler version differing in the first or only in the last component):
	each of them is regenerated by a plain run."""
	from rogw.tranp.data.meta.header import MetaHeader
	h = History(random.Random(7), 'chain', workdir, 'aged')
	p, _ = h.run(False)
	if cli.failed(p):
		acc.inconc('aged-headers project: initial run failed', (p.stdout + p.stderr)[-300:])
		return
	edits = {
		'l': (r'^(// @tranp.meta: \{"version":"\d+\.\d+\.)\d+"', r'\g<1>7"', 'application version, last component'),
		'm': (r'("transpiler":\{"version":"\d+\.\d+\.)\d+"', r'\g<1>9"', 'transpiler version, last component'),
		'r': (r'^(// @tranp.meta: \{"version":")\d+', r'\g<1>0', 'application version, first component'),
		'u': (r'("transpiler":\{"version":")\d+', r'\g<1>7', 'transpiler version, first component'),
	}
	for k, (pat, rep, what) in edits.items():
		path = h.output_path(k)
		with open(path, 'rb') as f:
			text = f.read().decode('utf-8')
		aged = re.sub(pat, rep, text, count=1)
		if aged == text:
			acc.inconc('aged-headers: header line has an unexpected form', text.split('\n')[0][:200])
			return
		with open(path, 'wb') as f:
			f.write(aged.encode('utf-8'))
	p, _ = h.run(False)
	acc.see('nonforced_runs_judged', 'aged-headers')
	acc.case('aged-headers', {'edits': {k: v[2] for k, v in edits.items()}}, True)
	case = {'kind': 'aged-headers'}
	if cli.failed(p):
		acc.violation('nonforced-run-fails', f'aged headers: {(p.stdout + p.stderr)[-400:]}', case)
		return
	outs = h.outputs()
	for k, (_, _, what) in edits.items():
		got = MetaHeader.try_from_content(outs[h.output_rel(k)])
		acc.see('regeneration', 'required')
		if got is None or got.to_json() != header_expected(h.root, h.hp.names[k]):
			acc.violation('not-regenerated', f'{h.output_rel(k)} was recorded by another release ({what}) and keeps that header after a plain run: {got.to_json() if got else None}', case)
			return


def shipped_example(acc: Acc, workdir: str) -> None:
	"""The example project shipped with tranp (example/json.py; its output example/json.h is committed in the tranp tree) copied into a
	directory of its own: a first plain run, and a plain run after the output was deleted, have to write example/json.h there."""
	import json
	from vf.common import REPO
	root = os.path.join(workdir, 'shipped')
	shutil.copytree(os.path.join(REPO, 'example'), os.path.join(root, 'example'), ignore=shutil.ignore_patterns('*.h', 'config.yml', '__pycache__'))
	cfg_path = cli.write_config(root, ['example/**/*.py'], ['./'])
	with open(cfg_path) as f:
		cfg = json.load(f)
	cfg['exclude_patterns'] = ['example/FW/*']
	cfg['env']['transpiler']['include_dirs'] = ['example/']
	with open(cfg_path, 'w') as f:
		json.dump(cfg, f, indent=1)
	shipped = os.path.exists(os.path.join(REPO, 'example', 'json.h'))
	acc.see('shipped_output_present_in_tranp_tree', str(shipped))
	out = os.path.join(root, 'example', 'json.h')
	case = {'kind': 'shipped-example'}
	acc.case('shipped-example', {'project': 'copy of example/ (sources only)', 'output_dirs': ['./']}, True)
	for step in ('first plain run', 'plain run after the output was deleted'):
		p = cli.run_cli(root, [])
		acc.see('nonforced_runs_judged', 'shipped-example')
		if cli.failed(p):
			acc.inconc('shipped example project does not transpile', (p.stdout + p.stderr)[-300:])
			return
		if not os.path.exists(out):
			acc.violation('not-regenerated', f'shipped example, {step}: example/json.h does not exist in the project directory after the run', case)
			return
		with open(out, encoding='utf-8') as f:
			text = f.read()
		pf = cli.run_cli(root, ['-f'])
		with open(out, encoding='utf-8') as f:
			forced = f.read()
		if cli.failed(pf):
			acc.inconc('shipped example project: forced run fails', (pf.stdout + pf.stderr)[-300:])
			return
		if text != forced:
			acc.violation('stale-output', f'shipped example, {step}: example/json.h differs from what the forced run writes: {diff_outputs({"json.h": text}, {"json.h": forced})}', case)
			return
		os.remove(out)


def shard(ctx: Ctx, acc: Acc) -> None:
	workdir = tempfile.mkdtemp(prefix='vf-c06-')
	try:
		try:
			if ctx.shard == 0:
				witness(acc, workdir)
			if ctx.shard == 2 % ctx.nshards:
				relocation(acc, workdir, 'move')
			if ctx.shard == 3 % ctx.nshards:
				relocation(acc, workdir, 'swap-rules')
			if ctx.shard == 4 % ctx.nshards:
				shipped_example(acc, workdir)
			if ctx.shard == 5 % ctx.nshards:
				aged_headers(acc, workdir)
			if ctx.shard == 1 % ctx.nshards:
				path_mapping(acc, ctx.rng('paths'), 300 if ctx.quick else 3000)
		except Exception as e:  # noqa
			acc.extra.setdefault('harness_errors', []).append(fmt_exc(e))
			return
		n = N_HISTORIES[ctx.tier]
		for i in range(n):
			if not ctx.mine(i):
				continue
			if ctx.out_of_time():
				acc.truncated_by_budget = True
				break
			try:
				run_history(acc, ctx.rng('history', i), workdir, i, 4 if ctx.quick else 8)
			except Exception as e:  # noqa
				acc.extra.setdefault('harness_errors', []).append(fmt_exc(e))
				return
	finally:
		shutil.rmtree(workdir, ignore_errors=True)


def replay(ctx: Ctx, case: dict, acc: Acc) -> None:
	workdir = tempfile.mkdtemp(prefix='vf-c06-replay-')
	try:
		if case.get('kind') == 'paths':
			path_mapping(acc, ctx.rng('paths'), 300)
		elif case.get('kind') == 'witness':
			witness(acc, workdir)
		elif case.get('kind') == 'relocation':
			relocation(acc, workdir, case['scenario'])
		elif case.get('kind') == 'shipped-example':
			shipped_example(acc, workdir)
		elif case.get('kind') == 'aged-headers':
			aged_headers(acc, workdir)
		else:
			run_history(acc, ctx.rng('history', case.get('seed', 0)), workdir, case.get('seed', 0), 8)
	finally:
		shutil.rmtree(workdir, ignore_errors=True)
