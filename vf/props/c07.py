"""C07 — failures are always reported as tranp errors, never internal crashes.

Outcome classifier around the real pipeline (Modules.load, ITranspiler.transpile, ErrorRender, the interactive loop) on byte- and
token-level mutations of valid programs, token soups and well-formed ill-typed programs, through the in-memory path (what the
interactive mode does) and the on-disk path (cached branch of the parser). A monitor on lark.Lark.parse records whether the parser
itself refused the text: whenever it did, the error at the API boundary must be Errors.Syntax. Termination is a logical step budget.
"""
from __future__ import annotations

import os
import re
import random
import shutil
import subprocess
import tempfile

from vf.common import Acc, Ctx, PY, REPO, sig_of, fmt_exc
from vf.mon.steps import BudgetExceeded, StepBudget

LEVEL = 'exploration'
RULE = ('inputs: byte-level (flip/insert/delete/duplicate/truncate, incl. quotes, brackets, tabs, CR, non-ASCII) and token-level (delete/swap/duplicate/replace/re-indent/drop closer) '
	'mutations of generated typed and syntactic programs, token soups over the grammar alphabet, 33 ill-typed templates and their mutations; every input goes through the in-memory path, '
	'every fourth also through the on-disk path, a sample through the real `transpile.py -it` process; one evaluation = one (input, path); distinct = distinct input text; '
	'non-trivial = the input is not accepted unchanged')
ASSUMPTIONS = [
	'KeyboardInterrupt / SystemExit / MemoryError / RecursionError on inputs nested deeper than CPython\'s own limit are not demanded to be wrapped (inputs are kept below depth 40)',
	'step budget: 20,000,000 Python function entries per input of <= 4 KiB; exhausting it is inconclusive unless it repeats with 5x the budget',
	'a damaged cache is C05\'s business; here the cache directory is private and fresh',
]
SHARDS = {'quick': 8, 'thorough': 16}
BUDGET_S = {'quick': 50, 'thorough': 560}
N_INPUTS = {'quick': 2400, 'thorough': 60000}
MIN_OBS = {'outcome': {'quick': 500, 'thorough': 8000}}
STEP_LIMIT = 20_000_000

_STATE: dict = {}


def state():
	if not _STATE:
		import lark
		from rogw.tranp.app.env import SourceEnvPath
		from vf.session import Session
		scratch = tempfile.mkdtemp(prefix='vf-c07-')
		src_dir = os.path.join(scratch, 'src')
		os.makedirs(src_dir)
		_STATE['scratch'] = scratch
		_STATE['src_dir'] = src_dir
		_STATE['mem'] = Session(cache_dir=os.path.join(scratch, 'cache-mem'))
		_STATE['disk'] = Session(cache_dir=os.path.join(scratch, 'cache-disk'), extra_definitions={'rogw.tranp.app.env.SourceEnvPath': lambda: SourceEnvPath.instantiate([src_dir])})
		_STATE['parse_raised'] = [False]
		orig = lark.Lark.parse

		def parse(self, *a, **k):
			try:
				return orig(self, *a, **k)
			except BaseException:
				_STATE['parse_raised'][0] = True
				raise
		lark.Lark.parse = parse  # type: ignore
		_STATE['steps'] = StepBudget()
		_STATE['steps'].install()
		_STATE['n'] = 0
	return _STATE


def cleanup() -> None:
	if _STATE.get('scratch'):
		shutil.rmtree(_STATE['scratch'], ignore_errors=True)


def pipeline(text: str, path: str) -> tuple[str, BaseException | None, bool]:
	"""Returns (stage reached / outcome tag, exception or None, parser refused the text)."""
	st = state()
	st['parse_raised'][0] = False
	if path == 'memory':
		s, name = st['mem'], '__main__'
		s.set_source(name, text + '\n')  # what WrapSourceProvider does
	elif path == 'mixed':
		# an in-memory main module in the application whose source path holds the on-disk modules
		s, name = st['disk'], '__main__'
		s.set_source(name, text + '\n')
	elif path == 'disk-overwrite':
		# a module file that was loaded (and cached) in an accepted version a moment ago and is overwritten with the text under test
		st['n'] += 1
		s, name = st['disk'], f'vf07_ow{st["n"]}'  # a new file name each time: an application keeps the modification times it has seen
		file = os.path.join(st['src_dir'], name + '.py')
		t0 = 1_700_000_000.0 + 10 * st['n']
		with open(file, 'w', encoding='utf-8', newline='') as f:
			f.write(f'def f(a: int) -> int:\n\treturn a + {st["n"]}\n')
		os.utime(file, (t0, t0))
		try:
			s.modules.unload(name)
			s.transpiler.transpile(s.modules.load(name).entrypoint)
		finally:
			s.modules.unload(name)
		with open(file, 'w', encoding='utf-8', newline='') as f:
			f.write(text + '\n')
		dt = (0.004, 0.3, 0.75)[st['n'] % 3]
		os.utime(file, (t0 + dt, t0 + dt))
		# the second version is met by a new application over the same cache directory (the next command-line run); an application
		# does not watch files it has already read
		from rogw.tranp.app.env import SourceEnvPath
		from vf.session import Session
		src_dir = st['src_dir']
		s = Session(cache_dir=os.path.join(st['scratch'], 'cache-disk'), extra_definitions={'rogw.tranp.app.env.SourceEnvPath': lambda: SourceEnvPath.instantiate([src_dir])})
	elif path == 'disk-same':
		# one module file edited again and again (the same path, another text, a later modification time), each version met by a new
		# application over the same cache directory inside this one process: what an earlier report read from the file must not
		# serve the next report
		st['n'] += 1
		name = 'vf07_same'
		file = os.path.join(st['src_dir'], name + '.py')
		t0 = 1_700_000_000.0 + 10 * st['n']
		with open(file, 'w', encoding='utf-8', newline='') as f:
			f.write(text + '\n')
		os.utime(file, (t0, t0))
		from rogw.tranp.app.env import SourceEnvPath
		from vf.session import Session
		src_dir = st['src_dir']
		s = Session(cache_dir=os.path.join(st['scratch'], 'cache-disk'), extra_definitions={'rogw.tranp.app.env.SourceEnvPath': lambda: SourceEnvPath.instantiate([src_dir])})
	else:
		s = st['disk']
		st['n'] += 1
		name = f'vf07_{st["n"]}'
		with open(os.path.join(st['src_dir'], name + '.py'), 'w', encoding='utf-8', newline='') as f:
			f.write(text)
	stage = 'load'
	try:
		with st['steps'](STEP_LIMIT):
			s.modules.unload(name)
			module = s.modules.load(name)
			stage = 'transpile'
			s.transpiler.transpile(module.entrypoint)
		return 'ok', None, st['parse_raised'][0]
	except BudgetExceeded as e:
		return stage + ':budget', e, st['parse_raised'][0]
	except BaseException as e:  # noqa
		return stage, e, st['parse_raised'][0]
	finally:
		try:
			s.modules.unload(name)
		except BaseException:  # noqa
			pass


def judge(acc: Acc, case: dict) -> str | None:
	"""-> name of the Errors.* class the pipeline ended with (None: no error / not an application error)"""
	from rogw.tranp.errors import Errors
	from rogw.tranp.view.error_render import ErrorRender
	text, path = case['text'], case['path']
	stage, exc, parser_refused = pipeline(text, path)
	kind = case.get('kind', '?')
	nontrivial = stage != 'ok'
	acc.case(sig_of((text, path)), {'path': path, 'kind': kind, 'text': text[:160], 'outcome': stage + ('' if exc is None else ':' + type(exc).__name__)} if stage != 'ok' and len(text) < 200 else None, nontrivial)
	if exc is None:
		acc.see('outcome', f'{path}: ok')
		if case.get('refused_in_memory'):
			acc.violation('unparsable-accepted-on-disk', f'{path}: the in-memory submission of this text is refused with Errors.Syntax, the module file holding the same text is accepted: {text[:300]!r}', case)
		return None
	if isinstance(exc, BudgetExceeded):
		# replay once with 5x the budget
		global STEP_LIMIT
		old = STEP_LIMIT
		STEP_LIMIT = old * 5
		try:
			stage2, exc2, _ = pipeline(text, path)
		finally:
			STEP_LIMIT = old
		if isinstance(exc2, BudgetExceeded):
			acc.violation('no-termination-within-budget', f'{path}/{stage}: more than {old * 5} function entries for {len(text)} bytes of input: {text[:300]!r}', case)
		else:
			acc.inconc('step budget exhausted once (passed with 5x)', text[:120])
		return
	if isinstance(exc, (KeyboardInterrupt, SystemExit, MemoryError)):
		raise exc
	name = type(exc).__name__
	acc.see('outcome', f'{path}: {stage}: ' + (name if isinstance(exc, Errors.Error) else 'NOT-AN-APP-ERROR:' + name))
	if isinstance(exc, RecursionError) and (len(text) > 600 or max((len(l) - len(l.lstrip('\t')) for l in text.split('\n')), default=0) > 20):
		# deeply nested input: running into the interpreter's recursion limit says nothing about tranp
		acc.inconc('RecursionError (input nesting beyond the interpreter limit)', text[:120])
		return
	if not isinstance(exc, Errors.Error):
		import traceback
		tb = traceback.extract_tb(exc.__traceback__)
		where = next((f'{os.path.relpath(f.filename, REPO)}:{f.lineno} {f.name}' for f in reversed(tb) if f.filename.startswith(REPO)), '?')
		acc.violation('non-app-exception', f'{path}/{stage}: {type(exc).__module__}.{name}: {str(exc)[:200]!r} escaped (last tranp frame {where}) for input {text[:300]!r}', case)
	elif parser_refused and not isinstance(exc, Errors.Syntax):
		acc.violation('unparsable-not-syntax-error', f'{path}/{stage}: the parser refused the text but the error is {name}, not Errors.Syntax: {text[:300]!r}', case)
	# the error rendering itself never fails
	cwd = os.getcwd()
	try:
		if path in ('disk', 'disk-overwrite', 'disk-same'):
			# the renderer quotes the offending line from '<module path>.py' relative to the working directory (as in a real command-line run)
			os.chdir(state()['src_dir'])
		rendered = str(ErrorRender(exc))
		acc.see('error_render', 'ok' + (' (with source quotation)' if 'via Node:' in rendered else ''))
		if path in ('disk', 'disk-overwrite', 'disk-same') and 'via Node:' in rendered:
			# the quoted line is the line of the named file as it stands now (the renderer reads it in binary, cuts at LF, shows tabs as blanks)
			m = re.search(r'via Node:\n  (.*):(\d+)\n    >>> ([^\n]*)', rendered)
			quoted_file = os.path.join(state()['src_dir'], m.group(1)) if m else ''
			if m and int(m.group(2)) < 1:
				# a node without a position is reported as line 0 (the renderer then shows the last line): not a line of the file, nothing to compare here
				acc.see('error_render', 'quotation names line 0 (position-less node)')
			elif m and os.path.basename(quoted_file).startswith('vf07_') and os.path.isfile(quoted_file):
				with open(quoted_file, 'rb') as f:
					lines = f.read().split(b'\n')
				no = int(m.group(2)) - 1
				current = lines[no].decode('utf-8', errors='replace').replace('\t', ' ') if no < len(lines) else None
				acc.see('error_render', 'quotation of a re-edited file compared' if path == 'disk-same' else 'quotation of a module file compared')
				if current != m.group(3):
					acc.violation('error-render-stale-quotation', f'{path}: report for the file {m.group(1)}:{m.group(2)} quotes {m.group(3)!r}, the file holds {current!r} there', case)
		if name not in rendered:
			acc.violation('error-render-incomplete', f'rendering of {name} does not name the error class: {rendered[-300:]!r}', case)
	except BaseException as e2:  # noqa
		acc.violation('error-render-raises', f'str(ErrorRender({name})) raised {type(e2).__name__}: {e2} for input {text[:300]!r}', case)
	finally:
		os.chdir(cwd)
	return name if isinstance(exc, Errors.Error) else None


def interactive_case(acc: Acc, bad: str, good: str, case: dict) -> None:
	"""The real process: a refused submission must be reported and the loop must go on to transpile the next one."""
	def one_line_block(t: str) -> str:
		return '\n'.join(l for l in t.split('\n') if l.strip())
	stdin = one_line_block(bad) + '\n\n' + one_line_block(good) + '\n\nexit\n'
	env = dict(os.environ, PYTHONPATH=os.environ.get('PYTHONPATH', ''), PYTHONDONTWRITEBYTECODE='1')
	try:
		p = subprocess.run([PY, '-X', 'utf8', 'rogw/tranp/bin/transpile.py', '-it'], input=stdin, capture_output=True, text=True, timeout=180, cwd=REPO, env=env, errors='replace')
	except subprocess.TimeoutExpired:
		acc.inconc('interactive process watchdog fired', bad[:100])
		return
	out = p.stdout
	acc.see('interactive', 'ran')
	if 'JSONDecodeError' in out + p.stderr and 'syntax/lark/parser.py' in out + p.stderr:
		# the real process keeps its caches in <cwd>/.cache, which every interactive process of every shard shares: a file read while
		# another process is writing it is empty. Damaged cache files are C05's business; here it is not a verdict on the loop.
		acc.inconc('interactive process read a cache file of the shared <repo>/.cache while another process was writing it', bad[:100])
		return
	acc.case(sig_of(('it', bad, good)), {'path': 'interactive-process', 'bad': bad[:120]}, True)
	if 'Quit' not in out:
		acc.violation('interactive/no-quit', f'exit {p.returncode}; tail: {out[-400:]!r} {p.stderr[-300:]!r}', case)
		return
	if 'Traceback (most recent call last)' in p.stderr or p.returncode != 0:
		acc.violation('interactive/loop-died', f'exit {p.returncode}: {p.stderr[-600:]!r}', case)
		return
	if out.count('Result:') < 1:
		acc.violation('interactive/good-submission-not-transpiled', f'after a refused submission the next one produced no result; output tail {out[-500:]!r}', case)


def feedable(text: str) -> bool:
	"""can be typed into the interactive prompt as one submission: printable one-byte characters, no line that would end the block early"""
	return 0 < len(text) < 600 and all(c == '\n' or c == '\t' or 32 <= ord(c) < 127 for c in text) and 'exit' not in text.split('\n')


GOOD = 'def f(a: int) -> int:\n\treturn a + 1\n'


def classify(v: dict) -> str | None:
	return None


def unparsable_import_files() -> None:
	src_dir = state()['src_dir']
	with open(os.path.join(src_dir, 'vf07_broken.py'), 'w', encoding='utf-8') as f:
		f.write('def f(:\n\treturn 1\n')
	with open(os.path.join(src_dir, 'vf07_via.py'), 'w', encoding='utf-8') as f:
		f.write('from vf07_broken import f\ny: int = 1\n')


def shard(ctx: Ctx, acc: Acc) -> None:
	from vf.gen import mutate
	from vf.gen.syntactic import SynGen
	from vf.gen.typed import TypedGen
	st = state()
	try:
		n = N_INPUTS[ctx.tier]
		alphabet = ['def', 'class', 'if', 'else', 'elif', 'for', 'in', 'while', 'return', 'lambda', 'not', 'and', 'or', 'is', 'None', 'True', 'x', 'y', 'f', 'int', 'str', 'self', '1', '2.5', "'s'", '"t"', '(', ')', '[', ']', '{', '}', ':', ',', '.', '=', '+', '-', '*', '/', '%', '==', '<', '->', '@', '...', '**', '|', '&', 'try', 'except', 'as', 'with', 'pass', 'raise', 'from', 'import', 'yield', 'assert', 'del', 'break', '#c']
		seeds: list[str] = []
		fed_classes: set[str] = set()
		for i in range(n):
			if not ctx.mine(i):
				continue
			if ctx.out_of_time():
				acc.truncated_by_budget = True
				break
			r = ctx.rng('input', i)
			x = r.random()
			if x < 0.12 or not seeds:
				g = TypedGen(r, size=r.choice([2, 3]), opts={'classes': r.random() < 0.5})
				text, kind = g.program(n_funcs=r.choice([1, 2])).source, 'valid-typed'
				seeds.append(text)
				seeds[:] = seeds[-12:]
			elif x < 0.2:
				text, kind = SynGen(r, max_depth=r.choice([1, 2, 3])).module(), 'syntactic'
				seeds.append(text)
				seeds[:] = seeds[-12:]
			elif x < 0.5:
				text, k2 = mutate.mutate_bytes(r, r.choice(seeds))
				kind = 'byte-' + k2
			elif x < 0.78:
				text, kind = mutate.mutate_tokens(r, r.choice(seeds))
			elif x < 0.86:
				text, kind = mutate.token_soup(r, alphabet, r.choice([3, 8, 20, 40])), 'token-soup'
			elif x < 0.95:
				text, kind = r.choice(mutate.ILL_TYPED), 'ill-typed'
				if r.random() < 0.5:
					text = 'from enum import Enum\n' + text
			else:
				text, k2 = mutate.mutate_tokens(r, r.choice(mutate.ILL_TYPED))
				kind = 'ill-typed+' + k2
			text = text[:4096]
			try:
				err = judge(acc, {'text': text, 'path': 'memory', 'kind': kind})
				acc.see('input_kind', kind)
				if err is not None and i % 3 == 0:
					# the same refused submission once more in the same application: what the first attempt left behind must not turn the
					# report into something else
					acc.see('input_kind', 'resubmitted-after-refusal')
					judge(acc, {'text': text, 'path': 'memory', 'kind': kind + '+again'})
				if i % 4 == 0 or kind.startswith('ill-typed'):
					judge(acc, {'text': text, 'path': 'disk', 'kind': kind})
				if kind.startswith('ill-typed'):
					acc.see('input_kind', 're-edited-file')
					judge(acc, {'text': text, 'path': 'disk-same', 'kind': kind})
				if kind.startswith('ill-typed') and i % 2 == 0:
					# the same module file with other line endings: CRLF, classic-Mac CR, one stray CR in the middle
					nl = text.count('\n')
					for ending, variant in (('crlf', text.replace('\n', '\r\n')), ('cr', text.replace('\n', '\r')), ('stray-cr', text.replace('\n', '\r', max(1, nl // 2)).replace('\r', '\n', max(0, nl // 2 - 1)) if nl > 1 else text)):
						acc.see('input_kind', 'line-endings:' + ending)
						judge(acc, {'text': variant, 'path': 'disk', 'kind': kind + '+' + ending})
				if i % 8 == 1 and 'valid' not in kind:
					# the same text written over a module file that was accepted and cached a fraction of a second earlier
					acc.see('input_kind', 'overwrites-an-accepted-file')
					judge(acc, {'text': text, 'path': 'disk-overwrite', 'kind': kind, 'refused_in_memory': err == 'Syntax'})
				# "reports it and keeps running": the real interactive process is fed the first input of every error class this shard meets
				if (err is not None and err not in fed_classes and len(fed_classes) < 8 and feedable(text)) or (i % 997 == 0 and 'valid' not in kind):
					if err is not None:
						fed_classes.add(err)
					acc.see('interactive_error_class', err or 'periodic')
					interactive_case(acc, text, GOOD, {'text': text, 'path': 'interactive', 'kind': kind})
			except (KeyboardInterrupt, SystemExit):
				raise
			except BaseException as e:  # noqa
				acc.extra.setdefault('harness_errors', []).append(fmt_exc(e) + text[:300])
				return
		if ctx.shard == 1 % ctx.nshards:
			# an on-disk module that imports __main__ (no such file): refused as an application error on every submission of the importer
			st2 = state()
			with open(os.path.join(st2['src_dir'], 'vf07_back.py'), 'w', encoding='utf-8') as f:
				f.write('from __main__ import x\ny: int = 1\n')
			for _ in range(3):
				judge(acc, {'text': 'from vf07_back import y\nx: int = 1\n', 'path': 'mixed', 'kind': 'witness-import-of-main'})
			# an on-disk module whose own import names a file that does not exist: the same report on every submission of its importer
			with open(os.path.join(st2['src_dir'], 'vf07_miss.py'), 'w', encoding='utf-8') as f:
				f.write('from vf07_nowhere import x\ny: int = 1\n')
			for _ in range(3):
				judge(acc, {'text': 'from vf07_miss import y\nz: int = y\n', 'path': 'mixed', 'kind': 'witness-import-of-missing'})
			# an on-disk module the parser refuses, reached through an import: the refusal surfaces as Errors.Syntax however the module is reached
			unparsable_import_files()
			for _ in range(2):
				judge(acc, {'text': 'from vf07_broken import f\nz: int = 1\n', 'path': 'mixed', 'kind': 'witness-import-of-unparsable'})
				judge(acc, {'text': 'from vf07_via import y\nz: int = y\n', 'path': 'mixed', 'kind': 'witness-import-of-unparsable'})
			judge(acc, {'text': 'a = 1\n', 'path': 'mixed', 'kind': 'witness'})
		if ctx.shard == 0:
			# witnesses of the two defects fixed in /repo (known_findings.json, status=fixed)
			for w in ('def f) -> int:\n\treturn\n', 'from nowhere.module import Thing\n', 'def f(a: int) -> int:\n\tx, y = a\n\treturn x\n', 'def f() -> None:\n\tg = lambda q: g(q)\n'):
				judge(acc, {'text': w, 'path': 'memory', 'kind': 'witness'})
				judge(acc, {'text': w, 'path': 'disk', 'kind': 'witness'})
			interactive_case(acc, 'def f(:\n', GOOD, {'text': 'def f(:\n', 'path': 'interactive', 'kind': 'fixed'})
			interactive_case(acc, 'def f(a: int) -> int:\n\treturn b\n', GOOD, {'text': 'def f(a: int) -> int:\n\treturn b\n', 'path': 'interactive', 'kind': 'fixed'})
	finally:
		cleanup()


def replay(ctx: Ctx, case: dict, acc: Acc) -> None:
	try:
		if case.get('path') == 'interactive':
			interactive_case(acc, case['text'], GOOD, case)
		else:
			if case.get('kind') == 'witness-import-of-unparsable':
				unparsable_import_files()
			judge(acc, case)
	finally:
		cleanup()
