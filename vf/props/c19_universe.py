"""Small universe of symbols and factories for the C19 container workload.

Importable by dotted path so that LazyDI's by-name registrations can reach it.
Every produced object records which factory made it, a global serial and the arguments it was given.
"""
from typing import Annotated, Generic, TypeVar

__all__ = ['S0', 'S1', 'S2', 'G', 'reset', 'FACTORIES', 'SYMBOLS']

T = TypeVar('T')
_serial = [0]
LOG: list = []


def reset() -> None:
	_serial[0] = 0
	LOG.clear()


def _next() -> int:
	_serial[0] += 1
	return _serial[0]


class Made:
	fid = '?'

	def _init(self, *args) -> None:
		self.serial = _next()
		self.args = args
		LOG.append((self.fid, self.serial))

	def __repr__(self) -> str:
		return f'<{self.fid}#{self.serial}>'


class S0(Made):
	fid = 'S0'

	def __init__(self) -> None:
		self._init()


class S1(Made):
	fid = 'S1'

	def __init__(self) -> None:
		self._init()


class S2(Made):
	fid = 'S2'

	def __init__(self) -> None:
		self._init()


class G(Made, Generic[T]):
	fid = 'G'

	def __init__(self) -> None:
		self._init()


class Obj(Made):
	def __init__(self, fid: str, *args) -> None:
		self.fid = fid
		self._init(*args)


def f_plain() -> Obj:
	return Obj('f_plain')


def f_plain2() -> Obj:
	return Obj('f_plain2')


def f_dep0(s0: S0) -> Obj:
	return Obj('f_dep0', s0)


def f_dep01(s0: S0, s1: S1) -> Obj:
	return Obj('f_dep01', s0, s1)


def f_tail(s0: S0, n: int) -> Obj:
	return Obj('f_tail', s0, n)


def f_tail2(s1: S1, n: int, s: str) -> Obj:
	return Obj('f_tail2', s1, n, s)


def f_mid(s0: S0, n: int, s1: S1) -> Obj:
	"""s1 comes after a non-resolvable parameter: it must be passed through, never injected"""
	return Obj('f_mid', s0, n, s1)


def f_gen(g: G[int], s0: S0) -> Obj:
	return Obj('f_gen', g, s0)


def f_union(s0: S0, fallback: S1 | None) -> Obj:
	"""the second annotation names no symbol: always passed through"""
	return Obj('f_union', s0, fallback)


def f_annot(s1: S1, n: Annotated[int, 'meta']) -> Obj:
	return Obj('f_annot', s1, n)


class CtorDep(Made):
	fid = 'CtorDep'

	def __init__(self, s0: S0) -> None:
		self._init(s0)


class CtorDep2(Made):
	fid = 'CtorDep2'

	def __init__(self, s0: S0, s1: S1) -> None:
		self._init(s0, s1)


class Maker:
	def __init__(self, tag: str) -> None:
		self.tag = tag

	def make(self, s0: S0) -> Obj:
		return Obj('Maker.make:' + self.tag, s0)

	def make_plain(self) -> Obj:
		return Obj('Maker.make_plain:' + self.tag)


class CallableObj:
	def __call__(self, s1: S1) -> Obj:
		return Obj('CallableObj', s1)


class Left:
	"""Left.Opt / Right.Opt and Left.create / Right.create differ only in the class they live in"""
	class Opt(Made):
		fid = 'Left.Opt'

		def __init__(self) -> None:
			self._init()

	@classmethod
	def create(cls, s0: S0) -> Obj:
		return Obj('Left.create', s0)


class Right:
	class Opt(Made):
		fid = 'Right.Opt'

		def __init__(self) -> None:
			self._init()

	@classmethod
	def create(cls, s0: S0, s1: S1) -> Obj:
		return Obj('Right.create', s0, s1)


maker_a = Maker('a')
maker_b = Maker('b')
callable_obj = CallableObj()
lam_plain = lambda: Obj('lam_plain')  # noqa: E731
lam_plain2 = lambda: Obj('lam_plain2')  # noqa: E731

SYMBOLS = {'S0': S0, 'S1': S1, 'S2': S2, 'G': G, 'G[int]': G[int], 'G[str]': G[str], 'L.Opt': Left.Opt, 'R.Opt': Right.Opt}
ORIGIN = {'S0': 'S0', 'S1': 'S1', 'S2': 'S2', 'G': 'G', 'G[int]': 'G', 'G[str]': 'G', 'L.Opt': 'L.Opt', 'R.Opt': 'R.Opt'}
LEVEL = {'S0': 0, 'S1': 1, 'S2': 2, 'G': 3, 'L.Opt': 2, 'R.Opt': 2}

# name -> (callable, annotated parameter list [(name, symbol-origin | python type)], dotted path or None)
FACTORIES = {
	'S0': (S0, [], 'vf.props.c19_universe.S0'),
	'S1': (S1, [], 'vf.props.c19_universe.S1'),
	'S2': (S2, [], 'vf.props.c19_universe.S2'),
	'G': (G, [], 'vf.props.c19_universe.G'),
	'f_plain': (f_plain, [], 'vf.props.c19_universe.f_plain'),
	'f_plain2': (f_plain2, [], 'vf.props.c19_universe.f_plain2'),
	'f_dep0': (f_dep0, ['S0'], 'vf.props.c19_universe.f_dep0'),
	'f_dep01': (f_dep01, ['S0', 'S1'], 'vf.props.c19_universe.f_dep01'),
	'f_tail': (f_tail, ['S0', int], 'vf.props.c19_universe.f_tail'),
	'f_tail2': (f_tail2, ['S1', int, str], 'vf.props.c19_universe.f_tail2'),
	'f_mid': (f_mid, ['S0', int, 'S1'], 'vf.props.c19_universe.f_mid'),
	'f_gen': (f_gen, ['G', 'S0'], 'vf.props.c19_universe.f_gen'),
	'f_union': (f_union, ['S0', (S1, type(None))], 'vf.props.c19_universe.f_union'),
	'f_annot': (f_annot, ['S1', int], 'vf.props.c19_universe.f_annot'),
	'CtorDep': (CtorDep, ['S0'], 'vf.props.c19_universe.CtorDep'),
	'CtorDep2': (CtorDep2, ['S0', 'S1'], 'vf.props.c19_universe.CtorDep2'),
	'L.Opt': (Left.Opt, [], None),
	'R.Opt': (Right.Opt, [], None),
	'Left.create': (Left.create, ['S0'], None),
	'Right.create': (Right.create, ['S0', 'S1'], None),
	'maker_a.make': (maker_a.make, ['S0'], None),
	'maker_b.make': (maker_b.make, ['S0'], None),
	'maker_a.make_plain': (maker_a.make_plain, [], None),
	'callable_obj': (callable_obj, ['S1'], 'vf.props.c19_universe.callable_obj'),
	'lam_plain': (lam_plain, [], 'vf.props.c19_universe.lam_plain'),
	'lam_plain2': (lam_plain2, [], 'vf.props.c19_universe.lam_plain2'),
}

# what each factory's product reports as fid
PRODUCT_FID = {
	'S0': 'S0', 'S1': 'S1', 'S2': 'S2', 'G': 'G', 'f_plain': 'f_plain', 'f_plain2': 'f_plain2', 'f_dep0': 'f_dep0',
	'f_dep01': 'f_dep01', 'f_union': 'f_union', 'f_annot': 'f_annot', 'f_tail': 'f_tail', 'f_tail2': 'f_tail2', 'f_mid': 'f_mid', 'f_gen': 'f_gen',
	'CtorDep': 'CtorDep', 'CtorDep2': 'CtorDep2', 'maker_a.make': 'Maker.make:a', 'maker_b.make': 'Maker.make:b',
	'L.Opt': 'Left.Opt', 'R.Opt': 'Right.Opt', 'Left.create': 'Left.create', 'Right.create': 'Right.create',
	'maker_a.make_plain': 'Maker.make_plain:a', 'callable_obj': 'CallableObj', 'lam_plain': 'lam_plain', 'lam_plain2': 'lam_plain2',
}
