"""C05 — on-disk caches never change the result.

Histories of edit / touch / run / clear-cache / cache on-off over scratch projects are driven through the real command line; after
every run the outputs are compared byte for byte with a cold reference (same sources in a pristine directory without any cache);
runs with caching disabled are executed under an audit hook and must not touch the cache directory; every cache file left by a warm
run is truncated at several offsets (interrupted write) and the next run must rebuild or fail, never succeed with other content.
"""
from __future__ import annotations

import os
import random
import shutil
import tempfile

from vf import cli
from vf.common import Acc, Ctx, sig_of, fmt_exc
from vf.history import History

LEVEL = 'fault_enumeration'
RULE = ('projects: chain (leaf <- mid <- root) and diamond graphs in which the leaf decides a type that reaches the root only through inference, plus an unrelated module; '
	'histories of 6-9 steps over edit(module, variant) (content and mtime), touch (mtime only), forced run, clear-cache, cache off/on; fault enumeration: every cache file of a warm project '
	'x truncation offsets {0, 1, n/2, n-1}; one evaluation = one run compared with its cold reference (or one truncated-file run); distinct = distinct (project state, step kind); '
	'non-trivial = the run happened with cache files left by an earlier state of the sources')
ASSUMPTIONS = [
	'all runs in a history are forced (-f) so that output selection (C06) plays no role; a failing run is acceptable for a truncated cache file, per the statement',
	'cache on/off is switched the documented way: a di: override of CacheSetting in the project config',
	'the audit hook sees every file access of the process (tranp has no native extension doing I/O)',
]
SHARDS = {'quick': 16, 'thorough': 16}
BUDGET_S = {'quick': 38, 'thorough': 840}
TIMEOUT_S = {'quick': 600, 'thorough': 7200}
N_HISTORIES = {'quick': 10, 'thorough': 160}
MIN_OBS = {'runs_compared': {'quick': 10, 'thorough': 200}, 'truncations': {'quick': 10, 'thorough': 60}}


# scripted type-flow histories: (project shape, module that decides a type, variant field)
SCRIPTED = [('chain', 'l', 't'), ('diamond', 'l', 't'), ('deep', 'k', 't'), ('chain', 'u', 'lt'), ('deep', 'u', 'lt'), ('chain', 'l', 't', 'inproc'), ('deep', 'k', 't', 'inproc'), ('chain', 'g', '')]


def script_of(key: str, field: str) -> list:
	if key == 'g':
		# the project's own grammar file is edited, every source keeps its text
		return [('g', 1), ('g', 0), ('g', 1)]
	return [(key, {field: 'str'}), (key, {field: 'float'}), (key, {field: 'int', 'extra': 1})]


def diff_outputs(a: dict[str, str], b: dict[str, str]) -> str | None:
	if set(a) != set(b):
		return f'file sets differ: only warm {sorted(set(a) - set(b))}, only cold {sorted(set(b) - set(a))}'
	for k in sorted(a):
		if a[k] != b[k]:
			la, lb = a[k].split('\n'), b[k].split('\n')
			i = next((j for j in range(min(len(la), len(lb))) if la[j] != lb[j]), min(len(la), len(lb)))
			return f'{k} line {i + 1}: warm {la[i] if i < len(la) else "<eof>"!r} vs cold {lb[i] if i < len(lb) else "<eof>"!r}'
	return None


def under(path: str, base: str) -> bool:
	return os.path.abspath(path).startswith(os.path.abspath(base) + os.sep) or os.path.abspath(path) == os.path.abspath(base)


def run_history(acc: Acc, r: random.Random, workdir: str, hid: int, n_steps: int, shape: str | None = None, script: list | None = None, inproc: bool = False) -> None:
	shape = shape or r.choice(['chain', 'diamond', 'deep', 'deep'])
	own_grammar = bool(script and script[0][0] == 'g') or (not script and r.random() < 0.3)
	# in some projects the module that decides the types is a symbolic link to a file outside the input globs
	symlinked = (script[0][0] if script and script[0][0] in ('l', 'k') and hid % 2 == 1 else None) if script else (r.choice(['l', 'u']) if r.random() < 0.25 else None)
	h = History(r, shape, workdir, f'h{hid}', own_grammar=own_grammar, symlinked=symlinked)
	if symlinked:
		acc.see('project_variant', 'module file is a symbolic link: ' + symlinked)
	case_base = {'kind': 'history', 'seed': hid}
	# first run creates the caches
	p, _ = h.run(True)
	if cli.failed(p):
		acc.inconc('initial run failed (harness/project)', (p.stdout + p.stderr)[-400:])
		return
	stale_possible = False
	for step in range(len(script) if script else n_steps):
		x = r.random()
		p_pre = None
		if script:
			# scripted history: the type-deciding module is edited, everything else keeps its text
			key, variant = script[step]
			if key == 'g':
				h.edit_grammar(variant)
			elif inproc:
				p_pre = h.run_edit_run(True, key, dict(h.hp.variants[key], **variant))
			else:
				h.edit(key, dict(h.hp.variants[key], **variant))
			stale_possible = True
			acc.see('op', ('scripted-run+edit+run-in-one-process:' if inproc else 'scripted-edit:') + key)
		elif x < 0.45:
			key, variant = h.hp.random_edit(r)
			if h.cache_enabled and r.random() < 0.3:
				# the edit happens between two runs of one interpreter process (watcher / in-process driver)
				p_pre = h.run_edit_run(True, key, variant)
				acc.see('op', 'run+edit+run-in-one-process:' + key)
			else:
				h.edit(key, variant)
				acc.see('op', 'edit:' + key)
			stale_possible = True
		elif x < 0.55:
			h.touch(r.choice(list(h.hp.names)))
			acc.see('op', 'touch')
		elif x < 0.62:
			h.clear_cache()
			stale_possible = False
			acc.see('op', 'clear-cache')
		elif x < 0.72:
			h.set_cache(not h.cache_enabled)
			acc.see('op', 'cache-' + ('on' if h.cache_enabled else 'off'))
		elif x < 0.85 and h.own_grammar:
			h.edit_grammar()
			stale_possible = True
			acc.see('op', 'edit-grammar')
		else:
			pass
		# run + compare (after every mutation step)
		audit = not h.cache_enabled and p_pre is None
		if p_pre is not None:
			p, events = p_pre, []
		else:
			# "with caching disabled no cache file is read or written": start from whatever earlier runs left behind
			p, events = h.run(True, audit=audit)
		case = dict(case_base, **h.describe())
		warm_failed = cli.failed(p)
		cold, cold_failed, cold_msg = h.cold_reference(workdir, f'{hid}-{step}')
		acc.see('runs_compared', 'cache-' + ('on' if h.cache_enabled else 'off'))
		state_sig = sig_of((shape, sorted((k, sorted(v.items())) for k, v in h.hp.variants.items()), h.cache_enabled, h.grammar_variant, h.log[-2][0] if len(h.log) > 1 else ''))
		acc.case(state_sig, {'shape': shape, 'last_ops': h.log[-4:], 'cache_enabled': h.cache_enabled} if step == 2 else None, stale_possible)
		if cold_failed:
			acc.inconc('cold reference run failed (project does not transpile)', cold_msg)
			return
		if warm_failed:
			acc.violation('warm-run-fails', f'the run with the caches earlier runs left behind fails while the cold run succeeds: {(p.stdout + p.stderr)[-500:]}', case)
			return
		d = diff_outputs(h.outputs(), cold)
		if d is not None:
			acc.violation('warm-differs-from-cold', f'{d}\nhistory: {h.log}', case)
			return
		if audit:
			base = os.path.join(h.root, '.cache')
			touched = [e for e in events if e.get('path') and under(e['path'], base)]
			acc.see('audit_events', 'seen', len(events))
			if not events:
				acc.inconc('audit log empty (monitor not reached)', None)
			if touched:
				acc.violation('cache-touched-while-disabled', f'with CacheSetting.enabled=False the run accessed {[(e["event"], os.path.relpath(e["path"], h.root), e.get("mode")) for e in touched[:6]]}', case)
				return
		else:
			# enabled: at most one generation per cache key
			files = cli.cache_files(h.root)
			keys: dict[str, int] = {}
			for f in files:
				stem = f.rsplit('-', 1)[0]
				keys[stem] = keys.get(stem, 0) + 1
			dup = {k: n for k, n in keys.items() if n > 1}
			acc.see('cache_generations_checked', 'dirs', 1)
			if dup:
				acc.violation('stale-cache-generation-left', f'more than one generation for {dup}', case)
				return


def truncation_sweep(acc: Acc, r: random.Random, workdir: str, share: int, nshares: int, shape: str) -> None:
	h = History(r, shape, workdir, f'trunc{share}')
	p, _ = h.run(True)
	if cli.failed(p):
		acc.inconc('initial run failed (harness/project)', (p.stdout + p.stderr)[-400:])
		return
	cold = h.outputs()
	files = cli.cache_files(h.root)
	backup = os.path.join(workdir, f'cache-backup-{share}')
	shutil.copytree(os.path.join(h.root, '.cache'), backup)
	jobs = [(f, o) for f in files for o in ('0', '1', 'half', 'last')]
	for j, (f, o) in enumerate(jobs):
		if j % nshares != share:
			continue
		shutil.rmtree(os.path.join(h.root, '.cache'))
		shutil.copytree(backup, os.path.join(h.root, '.cache'))
		path = os.path.join(h.root, f)
		n = os.path.getsize(path)
		cut = {'0': 0, '1': min(1, n), 'half': n // 2, 'last': max(0, n - 1)}[o]
		with open(path, 'r+b') as fh:
			fh.truncate(cut)
		shutil.rmtree(os.path.join(h.root, 'out'), ignore_errors=True)
		p, _ = h.run(True)
		kind = 'parser' if f.endswith('.bin') else ('symbols' if '-symbols-' in f else 'tree')
		case = {'kind': 'truncation', 'shape': shape, 'file': f, 'offset': o, 'size': n}
		acc.see('truncations', f'{kind}@{o}')
		acc.case(sig_of((kind, o, f)), {'file': f, 'cut_at': cut, 'of': n} if j < 2 else None, True)
		if cli.failed(p):
			acc.see('truncation_outcome', 'run-fails')
			continue
		acc.see('truncation_outcome', 'run-succeeds')
		d = diff_outputs(h.outputs(), cold)
		if d is not None:
			acc.violation('truncated-cache-changes-output', f'{f} truncated to {cut}/{n} bytes: {d}', case)
	shutil.rmtree(backup, ignore_errors=True)


def classify(v: dict) -> str | None:
	return None


def shard(ctx: Ctx, acc: Acc) -> None:
	workdir = tempfile.mkdtemp(prefix='vf-c05-')
	try:
		try:
			truncation_sweep(acc, ctx.rng('trunc'), workdir, ctx.shard, ctx.nshards, 'chain' if ctx.quick or ctx.seed % 2 == 0 else 'diamond')
		except Exception as e:  # noqa
			acc.extra.setdefault('harness_errors', []).append(fmt_exc(e))
			return
		# scripted type-flow histories, one per project shape: only the module that decides the type changes
		for j, (shape, key, field, *mode) in enumerate(SCRIPTED):
			if (j + 1) % ctx.nshards == ctx.shard:
				try:
					run_history(acc, ctx.rng('scripted', j), workdir, 9000 + j, 0, shape, script_of(key, field), inproc=bool(mode))
				except Exception as e:  # noqa
					acc.extra.setdefault('harness_errors', []).append(fmt_exc(e))
					return
		n = N_HISTORIES[ctx.tier]
		for i in range(n):
			if not ctx.mine(i):
				continue
			if ctx.out_of_time():
				acc.truncated_by_budget = True
				break
			try:
				run_history(acc, ctx.rng('history', i), workdir, i, 5 if ctx.quick else 9)
			except Exception as e:  # noqa
				acc.extra.setdefault('harness_errors', []).append(fmt_exc(e))
				return
	finally:
		shutil.rmtree(workdir, ignore_errors=True)


def replay(ctx: Ctx, case: dict, acc: Acc) -> None:
	workdir = tempfile.mkdtemp(prefix='vf-c05-replay-')
	try:
		if case.get('kind') == 'truncation':
			truncation_sweep(acc, random.Random(0), workdir, 0, 1, case.get('shape', 'chain'))
		else:
			if case.get('seed', 0) >= 9000:
				j = case['seed'] - 9000
				shape, key, field, *mode = SCRIPTED[j]
				run_history(acc, ctx.rng('scripted', j), workdir, case['seed'], 0, shape, script_of(key, field), inproc=bool(mode))
			else:
				run_history(acc, ctx.rng('history', case.get('seed', 0)), workdir, case.get('seed', 0), 9)
	finally:
		shutil.rmtree(workdir, ignore_errors=True)
