"""Fresh-process reference for C04: `python -m vf.props.c04_ref <src_dir> <cache_dir> <module> [<main_source_file>]` prints the transpile output."""
import sys

from vf import compat  # noqa: F401


def main() -> None:
	src_dir, cache_dir, module = sys.argv[1], sys.argv[2], sys.argv[3]
	from rogw.tranp.app.env import SourceEnvPath
	from vf.session import Session
	import os
	s = Session(cache_dir=cache_dir, extra_definitions={'rogw.tranp.app.env.SourceEnvPath': lambda: SourceEnvPath.instantiate([src_dir])}, config=os.environ.get('VF_C04_CONFIG') or 'example/config.yml')
	if len(sys.argv) > 4:
		with open(sys.argv[4], encoding='utf-8') as f:
			s.set_source(module, f.read())
	try:
		out = s.transpile(module)
		sys.stdout.write('OK\n' + out)
	except Exception as e:  # noqa
		sys.stdout.write('ERR\n' + type(e).__name__)


if __name__ == '__main__':
	main()
