"""C12 — the grammar engine reproduces itself and its compiled rule files.

Four obligations, each a run of the real engine: (1) parsing data/syntax/gram.lark with the built-in rules gives those rules back;
(2) compiling each shipped .lark with the real tool code gives the rule module checked in next to it; (3) for generated rule sets,
pretty -> parse -> from_ast gives an equal rule set; (4) sentences parse to the same trees (or are rejected alike) under a rule set
and under its printed-and-reparsed copy.
"""
from __future__ import annotations

import ast
import os
import random

from vf.common import Acc, Ctx, REPO, sig_of, fmt_exc

LEVEL = 'exploration'
RULE = ('obligations (1) and (2) run on every invocation on both shipped grammars; generated rule sets: 2-7 rules forming a DAG plus (X sep)* X lists, bodies from '
	'sequences, alternatives, optionals [..], repeats * + ?, nested groups, unwrap markers [1] [*], string terminals (names, symbols, "\\n", backslash-words) and regexp '
	'terminals (character classes, escaped slash); one evaluation = one rule set (round trip + 12 sentences); distinct = distinct printed text; '
	'non-trivial = has a nested group, an unwrap marker or a regexp terminal')
ASSUMPTIONS = [
	'generated rule sets avoid what makes the right-to-left engine loop by construction: a rule never ends with a reference to itself or an earlier rule, and repeated groups are never nullable',
	'generated rule sets have exactly the shapes Rules.from_ast produces (= what the meta-grammar can express) and are compared exactly, parentheses included',
	'compiled rule modules are compared as Python modules (ast.dump after removing docstrings): same function, same call, same tuple literal down to every string; byte identity is reported as an observation',
]
SHARDS = {'quick': 8, 'thorough': 16}
BUDGET_S = {'quick': 45, 'thorough': 480}
N_GRAMMARS = {'quick': 4000, 'thorough': 120000}
MIN_OBS = {'obligation': {'quick': 5000, 'thorough': 100000}}


def engine():
	from rogw.tranp.implements.syntax.tranp import rule as R
	from rogw.tranp.implements.syntax.tranp.syntax import SyntaxParser
	return R, SyntaxParser


# ---------------------------------------------------------------------------- structural comparison (Pattern has no __eq__)

def exact(p) -> object:
	R, _ = engine()
	if isinstance(p, R.Pattern):
		return ('p', p.role.name, p.comp.name, p.expression)
	return ('g', p.op.name, p.rep.name, [exact(e) for e in p.entries])


def unescape_quote(expr: str) -> str:
	"""The tool writes  \\'  inside a single-quoted Python literal, which evaluates to a bare quote: in a regular expression
	 \\'  and  '  match the same thing, so the executed module is compared modulo that one escape."""
	out = []
	i = 0
	while i < len(expr):
		if expr[i] == '\\' and i + 1 < len(expr):
			out.append("'" if expr[i + 1] == "'" else expr[i:i + 2])
			i += 2
		else:
			out.append(expr[i])
			i += 1
	return ''.join(out)


def exact_q(p) -> object:
	R, _ = engine()
	if isinstance(p, R.Pattern):
		return ('p', p.role.name, p.comp.name, unescape_quote(p.expression) if p.comp == R.Comps.Regexp else p.expression)
	return ('g', p.op.name, p.rep.name, [exact_q(e) for e in p.entries])


def norm(p) -> object:
	R, _ = engine()
	if isinstance(p, R.Pattern):
		return ('p', p.role.name, p.comp.name, p.expression)
	if p.rep == R.Repeators.NoRepeat and len(p.entries) == 1:
		return norm(p.entries[0])
	entries = [norm(e) for e in p.entries]
	# a sequence directly inside a sequence without repeat is the same sequence
	if p.op == R.Operators.And:
		flat = []
		for e, raw in zip(entries, p.entries):
			if isinstance(e, tuple) and e[0] == 'g' and e[1] == 'And' and e[2] == 'NoRepeat':
				flat.extend(e[3])
			else:
				flat.append(e)
		entries = flat
	return ('g', p.op.name if len(entries) > 1 else 'And', p.rep.name, entries)


def rules_view(rules, fn) -> list:
	return [(k, fn(rules[k.split('[')[0]])) for k in rules.org_symbols()]


# ---------------------------------------------------------------------------- obligations 1 + 2

def strip_docstrings(tree: ast.AST) -> ast.AST:
	for node in ast.walk(tree):
		if isinstance(node, (ast.FunctionDef, ast.Module, ast.ClassDef)) and node.body and isinstance(node.body[0], ast.Expr) and isinstance(getattr(node.body[0], 'value', None), ast.Constant) and isinstance(node.body[0].value.value, str):
			node.body = node.body[1:] or [ast.Pass()]
	return tree


def fixed_points(acc: Acc) -> None:
	R, SyntaxParser = engine()
	import importlib
	import sys
	if REPO not in sys.path:
		sys.path.insert(0, REPO)
	from rogw.tranp.bin.gram_check import App, Args
	gram_rules = importlib.import_module('data.syntax.gram_rules').gram_rules
	gram_tokenizer = importlib.import_module('data.syntax.gram_tokenizer').gram_tokenizer
	# (1) the meta grammar reproduces the built-in rules
	with open(os.path.join(REPO, 'data/syntax/gram.lark'), 'rb') as f:
		meta_text = f.read().decode('utf-8')
	case = {'obligation': 'meta-fixed-point'}
	try:
		tree = SyntaxParser(gram_rules(), gram_tokenizer()).parse(meta_text, 'entry')
		got = R.Rules.from_ast(tree.simplify())
		a, b = rules_view(got, exact), rules_view(gram_rules(), exact)
		acc.see('obligation', 'meta-fixed-point')
		if a != b:
			diff = next((f'{x[0]}: {x[1]} != {y[1]}' for x, y in zip(a, b) if x != y), f'{len(a)} rules vs {len(b)}')
			acc.violation('fixed-point/meta', f'parsing gram.lark with the built-in rules gives other rules: {diff}', case)
	except Exception as e:  # noqa
		acc.violation('fixed-point/meta-raise', f'{type(e).__name__}: {e}', case)
	acc.case('meta-fixed-point', {'obligation': 'meta-fixed-point', 'rules': len(gram_rules())})
	# (2) compiling each shipped grammar gives the checked-in rule module
	for lark_file, rules_file in (('data/syntax/gram.lark', 'data/syntax/gram_rules.py'), ('data/syntax/py_gram.lark', 'data/syntax/py_rules.py')):
		case = {'obligation': 'compile', 'grammar': lark_file}
		try:
			app = App(Args(['-i', lark_file, '-o', os.path.join('/nonexistent', os.path.basename(rules_file))]))
			tree = app.parser.parse(app.load_source(os.path.join(REPO, lark_file)), 'entry')
			rendered = app.render_rules(tree)
			with open(os.path.join(REPO, rules_file), 'rb') as f:
				shipped = f.read().decode('utf-8')
			acc.see('obligation', 'compile:' + os.path.basename(lark_file))
			acc.see('byte_identical', f'{os.path.basename(rules_file)}:{rendered == shipped}')
			a = ast.dump(strip_docstrings(ast.parse(rendered)))
			b = ast.dump(strip_docstrings(ast.parse(shipped)))
			if a != b:
				acc.violation('compile/differs', f'{rules_file} is not what the tool generates from {lark_file}', case)
			# and the module, when executed, yields rules equal to compiling in memory
			ns: dict = {}
			exec(compile(shipped, rules_file, 'exec'), ns)  # noqa: S102
			fn = [v for k, v in ns.items() if k.endswith('_rules') and callable(v)][0]
			if rules_view(fn(), exact_q) != rules_view(R.Rules.from_ast(tree.simplify()), exact_q):
				acc.violation('compile/rules-differ', f'{rules_file}() differs from from_ast(parse({lark_file}))', case)
		except Exception as e:  # noqa
			acc.violation('compile/raise', f'{lark_file}: {type(e).__name__}: {e}', case)
		acc.case('compile:' + lark_file, {'obligation': 'compile', 'grammar': lark_file})


# ---------------------------------------------------------------------------- generated rule sets

WORDS = ['if', 'else', 'def', 'in', 'not', 'x', 'kw', 'end', 'a\tb', 'k\tv w', '\r', '\n', 'a\rb', '\r\n', '\f', 'p\x0bq']  # (some with literal control characters: tab, CR, LF, FF, VT)
SYMS = ['+', '-', '*', '(', ')', '[', ']', ',', ':', '=', '.', '==', '->', ':=']
PLAIN_WORDS = ['if', 'else', 'def', 'in', 'not', 'x', 'kw', 'end']
REGEXPS = ['[\\\\\\/]', 'a\\\\\\/b', '\\\\', '[a-z]+', '[A-Z]\\w*', '0|[1-9]\\d*', '[-+]', '[*\\/%]', '<|>|==', '\\*{1,2}', '\\/', '\\/\\/', '[a-z]+:\\/\\/', '\\/[*]']


class GGen:
	def __init__(self, r: random.Random) -> None:
		self.r = r
		self.feats: set[str] = set()
		self.broken: list[str] = []
		R, _ = engine()
		self.R = R

	def make(self, text: str):
		"""Pattern.make under an independent law: a terminal's expression is the text between its two delimiters, nothing more stripped."""
		p = self.R.Pattern.make(text)
		if p.expression != text[1:-1]:
			self.broken.append(f'Pattern.make({text!r}).expression == {p.expression!r}, expected {text[1:-1]!r}')
		return p

	def terminal(self):
		r, R = self.r, self.R
		x = r.random()
		if x < 0.4:
			return self.make('"' + r.choice(WORDS) + '"')
		if x < 0.75:
			return self.make('"' + r.choice(SYMS) + '"')
		if x < 0.8:
			self.feats.add('backslash-word')
			return self.make('"\\' + r.choice(['INDENT', 'DEDENT', 'OP_UNARY_MINUS']) + '"')
		self.feats.add('regexp')
		if x < 0.84:
			# the body of a string terminal of the same pool as a regexp: the two kinds stay apart whatever was printed before
			self.feats.add('regexp-with-string-body')
			return self.make('/' + r.choice(PLAIN_WORDS) + '/')
		return self.make('/' + r.choice(REGEXPS) + '/')

	# Canonical shapes (exactly what Rules.from_ast can produce, i.e. what the meta-grammar can express):
	#   term  := Pattern | group            group := Patterns([expr], rep in {none, *, +, ?, []})   (single entry)
	#   seq   := Patterns([term, term, ...], And)  (>= 2)      alt := Patterns([seq|term, ...], Or)  (>= 2)
	#   expr  := term | seq | alt
	def term(self, later: list[str], depth: int, nullable_ok: bool):
		r, R = self.r, self.R
		x = r.random()
		if depth <= 0 or x < 0.45:
			return self.terminal() if not later or r.random() < 0.5 else R.Pattern.make(r.choice(later))
		reps = [R.Repeators.NoRepeat, R.Repeators.OverOne]
		if nullable_ok:
			reps += [R.Repeators.OverZero, R.Repeators.OneOrZero, R.Repeators.OneOrEmpty]
		rep = r.choice(reps)
		self.feats.add({'off': 'nested-group', '*': 'repeat:*', '+': 'repeat:+', '?': 'repeat:?', '[]': 'optional[]'}[rep.value])
		return R.Patterns([self.expr(later, depth - 1)], rep=rep)

	def seq(self, later: list[str], depth: int):
		r, R = self.r, self.R
		n = r.choice([2, 2, 3, 4])
		ents = [self.term(later, depth - 1, True) for _ in range(n)]
		# the engine matches the LAST entry first: keep it consuming so that nothing recurses or loops in place
		ents[-1] = self.term(later, depth - 1, False)
		return R.Patterns(ents, op=R.Operators.And)

	def alt(self, later: list[str], depth: int):
		r, R = self.r, self.R
		self.feats.add('alternatives')
		return R.Patterns([self.seq(later, depth - 1) if r.random() < 0.4 else self.term(later, depth - 1, False) for _ in range(r.choice([2, 2, 3]))], op=R.Operators.Or)

	def expr(self, later: list[str], depth: int):
		"""Never nullable (bodies of repeats and rules always consume)."""
		r = self.r
		x = r.random()
		if depth <= 0 or x < 0.35:
			return self.term(later, depth, False)
		if x < 0.7:
			return self.seq(later, depth)
		return self.alt(later, depth)

	def rules(self):
		r, R = self.r, self.R
		n = r.choice([2, 3, 4, 5, 7])
		names = [f'r{i}' for i in range(n)]
		out: dict = {}
		body0 = R.Patterns([self.term(names[1:], 2, False), R.Pattern.make('"\\n"')], op=R.Operators.And)
		out['entry'] = R.Patterns([body0], rep=R.Repeators.OverOne) if r.random() < 0.5 else body0
		for i in range(1, n):
			later = names[i + 1:]
			key = names[i]
			x = r.random()
			if x < 0.2:
				key += '[1]'
				self.feats.add('unwrap:1')
			elif x < 0.35:
				key += '[*]'
				self.feats.add('unwrap:*')
			if later and r.random() < 0.25:
				self.feats.add('list-idiom')
				item = R.Pattern.make(r.choice(later))
				body = R.Patterns([R.Patterns([R.Patterns([item, R.Pattern.make('","')], op=R.Operators.And)], rep=R.Repeators.OverZero), item], op=R.Operators.And)
			else:
				body = self.expr(later, r.choice([1, 2, 3]))
			out[key] = body
		# rules nobody references are still legal; keep them
		return R.Rules(out)


def sample_for_regexp(r: random.Random, expr: str) -> str:
	table = {'[\\\\\\/]': ['\\', '/'], 'a\\\\\\/b': ['a\\/b'], '\\\\': ['\\'], '\\/': ['/'], '\\/\\/': ['//'], '[a-z]+:\\/\\/': ['http://', 'a://'], '\\/[*]': ['/*'], '[a-z]+': ['a', 'foo', 'zed'], '[A-Z]\\w*': ['A', 'Foo', 'B_1'], '0|[1-9]\\d*': ['0', '7', '42'], '[-+]': ['+'], '[*\\/%]': ['*', '/', '%'], '<|>|==': ['<', '>', '=='], '\\*{1,2}': ['*', '**']}
	if expr in PLAIN_WORDS:
		return expr
	return r.choice(table.get(expr, ['a']))


def derive(r: random.Random, rules, p, depth: int, out: list[str]) -> None:
	R, _ = engine()
	if isinstance(p, R.Pattern):
		if p.role == R.Roles.Symbol:
			if depth > 12:
				out.append('x')
				return
			derive(r, rules, rules[p.expression], depth + 1, out)
		elif p.comp == R.Comps.Regexp:
			out.append(sample_for_regexp(r, p.expression))
		else:
			out.append(p.expression)
		return
	def once() -> None:
		if p.op == R.Operators.Or:
			derive(r, rules, r.choice(p.entries), depth + 1, out)
		else:
			for e in p.entries:
				derive(r, rules, e, depth + 1, out)
	rep = p.rep
	if rep == R.Repeators.NoRepeat:
		once()
	elif rep in (R.Repeators.OneOrZero, R.Repeators.OneOrEmpty):
		if r.random() < 0.5:
			once()
	else:
		n = r.choice([0, 1, 2]) if rep == R.Repeators.OverZero else r.choice([1, 1, 2])
		for _ in range(n):
			once()


def layout(tokens: list[str]) -> str:
	"""Token strings -> text for the default tokenizer; INDENT/DEDENT/unary-minus markers are engine-internal and spelled as words the tokenizer yields itself only from layout, so sentences simply avoid them."""
	out = []
	for t in tokens:
		if t == '\n':
			out.append('\n')
		else:
			out.append(t + ' ')
	return ''.join(out)


_META = []


def meta_parser():
	if not _META:
		import importlib
		_, SyntaxParser = engine()
		_META.append(SyntaxParser(importlib.import_module('data.syntax.gram_rules').gram_rules(), importlib.import_module('data.syntax.gram_tokenizer').gram_tokenizer()))
	return _META[0]


def check_grammar(acc: Acc, case: dict) -> None:
	R, SyntaxParser = engine()
	import importlib
	gram_rules = importlib.import_module('data.syntax.gram_rules').gram_rules
	gram_tokenizer = importlib.import_module('data.syntax.gram_tokenizer').gram_tokenizer
	r = random.Random(case['seed'])
	gg = GGen(r)
	g = gg.rules()
	feats = sorted(gg.feats)
	text = g.pretty() + '\n'
	case = dict(case, printed=text)
	nontrivial = any(f in ('nested-group', 'unwrap:1', 'unwrap:*', 'regexp') for f in feats)
	for f in feats:
		acc.see('feature', f)
	if gg.broken:
		acc.case(sig_of(text), None, nontrivial)
		acc.violation('pattern-make', gg.broken[0], case)
		return
	try:
		tree = meta_parser().parse(text, 'entry')
		if case['seed'] % 5 == 0:
			# ... and a fresh instance must read the same text the same way
			fresh_tree = SyntaxParser(gram_rules(), gram_tokenizer()).parse(text, 'entry')
			acc.see('obligation', 'long-lived-vs-fresh-parser')
			if fresh_tree.simplify() != tree.simplify():
				acc.violation('parser-history-dependent', f'the long-lived meta-grammar parser and a fresh one read this printout differently:\n{text}', case)
				return
		g2 = R.Rules.from_ast(tree.simplify())
	except Exception as e:  # noqa
		acc.case(sig_of(text), None, nontrivial)
		acc.violation('roundtrip/raise', f'printing and reparsing raised {type(e).__name__}: {str(e)[:300]} for\n{text}', case)
		return
	acc.see('obligation', 'roundtrip')
	a, b = rules_view(g, exact), rules_view(g2, exact)
	if a != b:
		diff = next((f'rule {x[0]}: {x[1]} became {y[1]}' for x, y in zip(a, b) if x != y), f'{len(a)} rules vs {len(b)}')
		acc.violation('roundtrip/differs', f'{diff}\nprinted:\n{text}', case)
		acc.case(sig_of(text), None, nontrivial)
		return
	if g2.pretty() + '\n' != text:
		acc.violation('roundtrip/print-not-stable', f'pretty(reparsed) differs from pretty(original):\n{text}\nvs\n{g2.pretty()}', case)
	# (4) sentences
	p1, p2 = SyntaxParser(g), SyntaxParser(g2)
	for k in range(12):
		toks: list[str] = []
		derive(r, g, g['entry'], 0, toks)
		if any(t.startswith('\\') for t in toks):
			continue
		sent = layout(toks)
		if k % 4 == 3 and len(toks) > 2:
			# a mutated sentence: both copies must still agree (accept alike or reject alike)
			i = r.randrange(len(toks) - 1)
			toks2 = toks[:i] + toks[i + 1:]
			sent = layout(toks2)
		outs = []
		for p in (p1, p2):
			try:
				outs.append(('tree', p.parse(sent, 'entry').simplify()))
			except Exception as e:  # noqa
				outs.append(('raise', type(e).__name__))
		acc.see('obligation', 'sentence:' + outs[0][0])
		if outs[0] != outs[1]:
			acc.violation('sentences/disagree', f'{sent!r}: original rules -> {str(outs[0])[:200]}, reparsed rules -> {str(outs[1])[:200]}\n{text}', dict(case, sentence=sent))
			break
	acc.case(sig_of(text), {'printed': text[:400], 'features': feats}, nontrivial)


def classify(v: dict) -> str | None:
	return None


def fixed_witness(acc: Acc) -> None:
	"""Witness of the printer defect fixed in /repo (known_findings.json, status=fixed): groups without repeat marker."""
	R, SyntaxParser = engine()
	import importlib
	gram_rules = importlib.import_module('data.syntax.gram_rules').gram_rules
	gram_tokenizer = importlib.import_module('data.syntax.gram_tokenizer').gram_tokenizer
	P, PS = R.Pattern.make, R.Patterns
	wide = [f'stmt_kind_{i:02d}' for i in range(14)]
	fixed = [
		R.Rules({
			'entry': PS([P('r1'), P('r2'), P('"\\n"')]),
			'r1': PS([P('"-"')]),
			'r2': PS([P('"kw"'), PS([PS([P('"a"'), P('"b"')], op=R.Operators.Or)]), P('"*"')]),
		}),
		# a keyword table: an alternation directly under a rule whose printed form is far longer than a hundred characters, a long
		# sequence, and a long alternation inside a group
		R.Rules({
			'entry': PS([P('stmt'), P('"\\n"')]),
			'stmt': PS([P(w) for w in wide], op=R.Operators.Or),
			'line': PS([P(w) for w in wide]),
			'grouped': PS([P('"kw"'), PS([PS([P(w) for w in wide], op=R.Operators.Or)]), P('"*"')]),
			**{w: PS([P(f'"{w}_keyword"')]) for w in wide},
		}),
	]
	# a string terminal and a regexp terminal with the same body, in both orders, in one rule set and in the next one (seeded C12/13: printed
	# form memoised by role and expression)
	fixed += [
		R.Rules({'entry': PS([P('word'), P('"\\n"')]), 'word': PS([P('"ab"'), P('/ab/')], op=R.Operators.Or)}),
		R.Rules({'entry': PS([P('word'), P('"\\n"')]), 'word': PS([P('/[a-z]+/'), P('"[a-z]+"')], op=R.Operators.Or)}),
		R.Rules({'entry': PS([P('/kw/'), P('"\\n"')])}),
		R.Rules({'entry': PS([P('"kw"'), P('/ab/'), P('"\\n"')])}),
	]
	for g in fixed:
		text = g.pretty() + '\n'
		case = {'obligation': 'witness', 'printed': text}
		try:
			g2 = R.Rules.from_ast(SyntaxParser(gram_rules(), gram_tokenizer()).parse(text, 'entry').simplify())
			if rules_view(g, exact) != rules_view(g2, exact):
				acc.violation('roundtrip/differs', f'witness rule set changed by print+parse:\n{text[:600]}', case)
		except Exception as e:  # noqa
			acc.violation('roundtrip/raise', f'{type(e).__name__}: {str(e)[:300]}', case)
		acc.see('obligation', 'roundtrip')
		acc.case('witness:' + sig_of(text), {'printed': text[:300]})


def shard(ctx: Ctx, acc: Acc) -> None:
	if ctx.shard == 0:
		fixed_points(acc)
		fixed_witness(acc)
	n = N_GRAMMARS[ctx.tier]
	for i in range(n):
		if not ctx.mine(i):
			continue
		if i % 16 == 0 and ctx.out_of_time():
			acc.truncated_by_budget = True
			break
		try:
			check_grammar(acc, {'seed': ctx.rng('grammar', i).getrandbits(48)})
		except RecursionError:
			acc.case(None)
			acc.inconc('generated rule set made the engine recurse without consuming (generator bound)', None)
		except Exception as e:  # noqa
			acc.extra.setdefault('harness_errors', []).append(fmt_exc(e))
			return


def replay(ctx: Ctx, case: dict, acc: Acc) -> None:
	if case.get('obligation') == 'witness':
		fixed_witness(acc)
	elif case.get('obligation'):
		fixed_points(acc)
	else:
		check_grammar(acc, {'seed': case['seed']})
