"""C01 — transpiled C++ behaves like the Python source.

Translation validation by execution: every generated program is run under CPython and, after a real transpile, compiled with
g++ -std=c++20 under AddressSanitizer + UBSan and run on the same argument vectors; values and raise/not-raise are compared in a
canonical form. The operator-pair grouping table is complete on every run. The procedure shadow-stack monitor (C09) rides along.
"""
from __future__ import annotations

import os
import re
import shutil
import tempfile

from vf.common import Acc, Ctx, sig_of, fmt_exc
from vf.mon import procedure as pmon

LEVEL = 'translation_validation'
RULE = ('programs: (i) the grouping table – for every ordered pair of operators (arithmetic, shift, bitwise, comparison, and/or, not, unary, ternary, chains) one '
	'function without parentheses and its explicitly parenthesised variants, complete on every run; (ii) random typed programs over the construct set of the property '
	'(vf.gen.typed). One evaluation = one (entry function, argument vector) pair executed on both sides; distinct = distinct (function text, vector); '
	'non-trivial = the function body holds an operator, a call or a compound statement')
ASSUMPTIONS = [
	'subset made operational in vf/gen/typed.py: stored ints in [-10^4, 10^4] (UBSan signed overflow marks the input inconclusive), % only on non-negative operands, no int/int division, '
	'floats are small dyadic rationals (exact in float32, which is what tranp maps float to), no aliasing / mutation through parameters, indices in range by construction, dict iteration only feeds commutative sums, '
	'callee defined before caller (the emitted text is a header without forward declarations)',
	'constructs without any C++ mapping (str.split/join/replace/strip/count/lower/upper, list.index/remove/sort/reverse/extend, print, str.format) are not generated',
	'trusted base: g++ 12 -std=c++20, vf/cpp/prelude.h (standard headers, std::format stand-in, value printer); exception messages are not compared',
]
SHARDS = {'quick': 16, 'thorough': 16}
BUDGET_S = {'quick': 55, 'thorough': 900}
TIMEOUT_S = {'quick': 900, 'thorough': 7200}
N_PROGRAMS = {'quick': 64, 'thorough': 1600}
PER_TU = 4
MIN_OBS = {'executions': {'quick': 2000, 'thorough': 30000}}

import json as _json
# constructs behind open findings are switched off in the random workload (their committed witnesses run every time)
RANDOM_OPTS = {'cmp_chain': False}
GEN_OPTS: dict = _json.loads(os.environ.get('VF_C01_OPTS', '{}'))
SKIP_GROUPING = os.environ.get('VF_C01_SKIP_GROUPING') == '1'

# committed witness of the open finding range-bound-reevaluated-each-iteration (vf.gen.typed keeps range_bound_mutation off)
WITNESS_RANGE_BOUND = 'def bound(n: int) -> int:\n\tc = n\n\tt = 0\n\tfor i in range(c):\n\t\tc += 1\n\t\tt += 1\n\t\tif t > 50:\n\t\t\tbreak\n\treturn t\n'

# committed witness of the open finding enumerate-index-redeclared (vf.gen.typed keeps enumerate index names unique)
WITNESS_ENUMERATE_TWICE = 'def twice(n: int) -> int:\n\txs = [n, 2]\n\tt = 0\n\tfor i, x in enumerate(xs):\n\t\tt = t + i * x\n\tfor i, y in enumerate(xs):\n\t\tt = t + i + y\n\treturn t\n'

# committed witness of the open finding keyword-arguments-emitted-positionally (the generators never pass arguments by keyword)
WITNESS_KEYWORD_ARGS = 'def g(a: int, b: int = 2, c: int = 3) -> int:\n\treturn a * 100 + b * 10 + c\n\n\ndef kw(n: int) -> int:\n\treturn g(n, c=5)\n'

_SESSION = None


def session():
	global _SESSION
	if _SESSION is None:
		from vf.session import Session
		_SESSION = Session()
		pmon.install()
	return _SESSION


def transpile(source: str) -> str:
	s = session()
	s.set_source('__main__', source)
	s.modules.unload('__main__')
	return s.transpile('__main__')


class Unit:
	def __init__(self, uid: int, prog, kind: str) -> None:
		self.uid = uid
		self.prog = prog
		self.kind = kind
		self.ns = f'p{uid}'
		self.header = f'p{uid}.h'
		self.expected: dict = {}
		self.cpp: str | None = None
		self.dead = False

	def case(self, ei: int | None = None, vi: int | None = None) -> dict:
		c = {'kind': self.kind, 'source': self.prog.source, 'entries': [[e.name, [[n, list(t)] for n, t in e.params], list(e.ret) if not isinstance(e.ret[-1], tuple) else [e.ret[0], [list(x) for x in e.ret[1]]], e.vectors] for e in self.prog.entries]}
		if ei is not None:
			c['entry'] = self.prog.entries[ei].name
			c['vector'] = self.prog.entries[ei].vectors[vi] if vi is not None else None
		return c


def body_of(source: str, name: str) -> str:
	m = re.search(r'^def ' + re.escape(name) + r'\(.*?(?=^def |^class |\Z)', source, re.S | re.M)
	return m.group(0).strip() if m else name


def process_batch(acc: Acc, units: list[Unit], workdir: str, batch_id: int) -> None:
	from rogw.tranp.errors import Errors
	from vf.cpp import driver as drv
	live: list[Unit] = []
	for u in units:
		try:
			u.expected = drv.run_python(u.prog)
		except Exception as e:  # noqa
			acc.inconc('CPython cannot run the generated program (generator defect): ' + type(e).__name__, u.prog.source[:300])
			continue
		py_raise = [k for k, v in u.expected.items() if v.startswith('raise') and v.split('\t')[1] not in ('RuntimeError',)]
		try:
			u.cpp = transpile(u.prog.source)
			acc.see('transpile', 'ok')
		except Errors.Error as e:
			acc.see('transpile', 'rejected:' + type(e).__name__)
			acc.violation('rejected-by-transpiler', f'{type(e).__name__}: {str(e)[:400]}', u.case())
			pmon.drain(acc, u.case)
			continue
		except Exception as e:  # noqa
			acc.see('transpile', 'crash:' + type(e).__name__)
			acc.violation('transpiler-crash', f'{type(e).__name__}: {str(e)[:400]}', u.case())
			pmon.drain(acc, u.case)
			continue
		pmon.drain(acc, u.case)
		with open(os.path.join(workdir, u.header), 'w') as f:
			f.write(u.cpp)
		live.append(u)
	# compile (drop units the compiler rejects, then retry)
	binp = None
	for attempt in range(4):
		if not live:
			return
		text = '\n'.join(drv.driver_for(u.prog, u.ns, u.header) for u in live) + '\n' + drv.main_for([(u.ns, u.prog) for u in live])
		ok, binp, diag = drv.compile_tu(workdir, f'tu{batch_id}_{attempt}', text)
		acc.see('compile', 'ok' if ok else 'failed')
		if ok:
			break
		bad = set(re.findall(r'(p\d+)\.h', diag))
		if not bad:
			# error in the driver part: attribute by namespace mentions
			bad = set(re.findall(r'\b(p\d+)::', diag))
		culprits = [u for u in live if u.ns in bad] or live[:]
		for u in culprits:
			first = next((l for l in diag.split('\n') if (u.header in l or u.ns + '::' in l) and 'error' in l), diag.strip().split('\n')[0] if diag.strip() else 'compiler failed')
			acc.violation('cpp-compile-error', f'g++ -std=c++20 rejects the emitted text: {first[:400]}', dict(u.case(), diagnostics=diag[:3000]))
		live = [u for u in live if u not in culprits]
		binp = None
	if binp is None:
		return
	for idx, u in enumerate(live):
		got, san, rc = drv.run_unit(binp, idx)
		if san:
			# isolate: run every (entry, vector) in its own process so that one report does not hide the others
			got = {}
			for (ei, vi) in u.expected:
				g1, s1, _ = drv.run_unit(binp, idx, ei, vi)
				got.update(g1)
				if s1:
					got[(ei, vi)] = 'abort\t' + s1
		for (ei, vi), want in sorted(u.expected.items()):
			e = u.prog.entries[ei]
			have = got.get((ei, vi))
			text = body_of(u.prog.source, e.name) if u.kind == 'grouping' else e.name + '@' + sig_of(u.prog.source)
			nontrivial = True
			acc.see('executions', u.kind)
			if have is None:
				acc.case(sig_of((text, e.vectors[vi])), None, nontrivial)
				acc.inconc('no output for this case (masked by an earlier abort)', None)
				continue
			sample = {'function': body_of(u.prog.source, e.name)[:300], 'args': e.vectors[vi], 'python': want, 'cpp': have} if ei == 0 and vi < 1 else None
			acc.case(sig_of((text, e.vectors[vi])), sample, nontrivial)
			if have.startswith('abort'):
				if 'signed integer overflow' in have:
					acc.inconc('UBSan: signed integer overflow (input left the bounded-integer subset)', {'function': body_of(u.prog.source, e.name)[:400], 'args': e.vectors[vi]})
				else:
					acc.see('sanitizer', have.split('\t', 1)[1][:60])
					acc.violation('sanitizer-report', f'{e.name}{tuple(e.vectors[vi])}: CPython -> {want!r}; C++ aborted: {have}\n{body_of(u.prog.source, e.name)[:1200]}', u.case(ei, vi))
				continue
			if have != want:
				label = getattr(u.prog, 'labels', {}).get(e.name)
				acc.violation('value-differs' if want.startswith('ok') and have.startswith('ok') else 'raise-differs',
					f'{e.name}{tuple(e.vectors[vi])}: CPython -> {want!r}, C++ -> {have!r}' + (f' [operators: {label[0]}; expression: {label[1]}]' if label else '') + f'\n{body_of(u.prog.source, e.name)[:1200]}',
					u.case(ei, vi))
		for f in u.prog.features:
			acc.see('feature', f)


# ---------------------------------------------------------------------------- known findings (mechanism predicates, see known_findings.json)

def c_style_value(expr: str, env: dict):
	"""What the expression yields when a comparison chain `a < b <= c` is read the C way, `(a < b) <= c`, everything else as in Python."""
	import ast
	import operator as op
	cmp = {ast.Lt: op.lt, ast.Gt: op.gt, ast.Eq: op.eq, ast.NotEq: op.ne, ast.LtE: op.le, ast.GtE: op.ge}

	def ev(n):
		if isinstance(n, ast.Compare):
			# C++: relational operators bind tighter than equality operators, both group left to right
			vals = [ev(n.left)] + [ev(c) for c in n.comparators]
			ops = list(n.ops)
			i = 0
			while i < len(ops):
				if isinstance(ops[i], (ast.Lt, ast.Gt, ast.LtE, ast.GtE)):
					vals[i:i + 2] = [cmp[type(ops[i])](vals[i], vals[i + 1])]
					del ops[i]
				else:
					i += 1
			cur = vals[0]
			for o, v in zip(ops, vals[1:]):
				cur = cmp[type(o)](cur, v)
			return cur
		if isinstance(n, ast.BoolOp):
			vals = [ev(v) for v in n.values]
			return all(vals) if isinstance(n.op, ast.And) else any(vals)
		if isinstance(n, ast.UnaryOp):
			v = ev(n.operand)
			return (not v) if isinstance(n.op, ast.Not) else (-v if isinstance(n.op, ast.USub) else (+v if isinstance(n.op, ast.UAdd) else ~v))
		if isinstance(n, ast.IfExp):
			return ev(n.body) if ev(n.test) else ev(n.orelse)
		if isinstance(n, ast.BinOp):
			binop = {ast.Add: op.add, ast.Sub: op.sub, ast.Mult: op.mul, ast.Mod: op.mod, ast.BitAnd: op.and_, ast.BitOr: op.or_, ast.BitXor: op.xor,
				ast.LShift: op.lshift, ast.RShift: op.rshift, ast.FloorDiv: op.floordiv, ast.Div: op.truediv}
			return binop[type(n.op)](ev(n.left), ev(n.right))
		if isinstance(n, ast.Name):
			return env[n.id]
		if isinstance(n, ast.Constant):
			return n.value
		raise ValueError(type(n).__name__)
	tree = ast.parse(expr, mode='eval').body
	ast.fix_missing_locations(tree)
	return ev(tree)


def has_chain(expr: str) -> bool:
	import ast
	return any(isinstance(n, ast.Compare) and len(n.ops) > 1 for n in ast.walk(ast.parse(expr, mode='eval')))


def classify(v: dict) -> str | None:
	"""Open finding 'comparison-chain-not-expanded': a chained comparison is emitted verbatim, so C++ evaluates `(a < b) <= c`.
	Matched only when (1) the failing function is a single expression holding a chain and (2) the value the C++ side produced is exactly
	what that C reading of the chain yields on these arguments – any other wrong value is a fresh violation."""
	if v['kind'] != 'value-differs' and v['case'].get('kind') != 'witness-enumerate-twice':
		return None
	d = v['detail']
	# Open finding 'range-bound-reevaluated-each-iteration': `for i in range(c)` is emitted as `for (auto i = 0; i < c; i += 1)`, so a body
	# that changes what the bound mentions changes the trip count. Matched only on the committed witness and only on the value that
	# re-evaluation yields there (51 trips instead of n).
	if v['case'].get('kind') == 'witness-enumerate-twice':
		# Open finding 'enumerate-index-redeclared': matched only on the committed witness and on that diagnostic
		return 'enumerate-index-redeclared' if v['kind'] == 'cpp-compile-error' and re.search(r"redeclaration of .int i.", v['detail'] + str(v['case'].get('diagnostics', ''))) else None
	if v['case'].get('kind') == 'witness-keyword-arguments':
		# Open finding 'keyword-arguments-emitted-positionally': matched only on the committed witness and on the value that dropping the
		# labels yields there (g(n, c=5) read as g(n, 5): b = 5, c = 3)
		return 'keyword-arguments-emitted-positionally' if re.match(r"kw\((-?\d+),\): CPython -> 'ok\\t-?\d+', C\+\+ -> 'ok\\t(-?\d+)'", d0 := v['detail']) and int(re.match(r"kw\((-?\d+),\).*C\+\+ -> 'ok\\t(-?\d+)'", d0).group(2)) == int(re.match(r"kw\((-?\d+),\)", d0).group(1)) * 100 + 53 else None
	if v['case'].get('kind') == 'witness-range-bound':
		return 'range-bound-reevaluated-each-iteration' if re.match(r"bound\(\d+,\): CPython -> 'ok\\t\d+', C\+\+ -> 'ok\\t51'", d) else None
	m = re.search(r'expression: (.*?)\]', d)
	mv = re.match(r"\w+\((-?\d+), (-?\d+), (-?\d+)\): CPython -> 'ok\\t(\w+)', C\+\+ -> 'ok\\t(\w+)'", d)
	if not m or not mv:
		mw = re.search(r'return (.+)$', d.split('\n', 1)[1] if '\n' in d else '', re.M) if v['case'].get('kind') == 'witness' else None
		if not (mw and mv):
			return None
		expr = mw.group(1).strip()
	else:
		expr = m.group(1)
	try:
		if not has_chain(expr):
			return None
		env = {'a': int(mv.group(1)), 'b': int(mv.group(2)), 'c': int(mv.group(3))}
		c_val = c_style_value(expr, env)
		got = mv.group(5)
		got_v = {'True': True, 'False': False}.get(got, None)
		if got_v is None:
			got_v = int(got)
		if int(c_val) == int(got_v):
			return 'comparison-chain-not-expanded'
	except Exception:  # noqa
		return None
	return None


def shard(ctx: Ctx, acc: Acc) -> None:
	import random
	from vf.cpp import driver as drv
	from vf.gen.grouping import grouping_programs
	from vf.gen.typed import TypedGen
	workdir = tempfile.mkdtemp(prefix='vf-c01-')
	try:
		drv.build_pch(workdir)
		units: list[Unit] = []
		uid = 0
		groups = grouping_programs(random.Random(ctx.seed), per_program=40, triples=0 if ctx.quick else 400)
		for gi, p in enumerate(groups):
			if gi % ctx.nshards == ctx.shard and not SKIP_GROUPING:
				units.append(Unit(uid, p, 'grouping'))
				uid += 1
		from vf.gen.catalogue import catalogue_programs
		for ci, p in enumerate(catalogue_programs()):
			if (ci + 2) % ctx.nshards == ctx.shard:
				units.append(Unit(uid, p, 'catalogue'))
				uid += 1
		if ctx.shard == 0:
			from vf.gen.typed import Entry, Program, INT
			units.append(Unit(uid, Program(WITNESS_KEYWORD_ARGS, [Entry('kw', [('n', INT)], INT, [[1], [4]])], {}, {}, set(), []), 'witness-keyword-arguments'))
			uid += 1
			units.append(Unit(uid, Program(WITNESS_ENUMERATE_TWICE, [Entry('twice', [('n', INT)], INT, [[3]])], {}, {}, set(), []), 'witness-enumerate-twice'))
			uid += 1
			units.append(Unit(uid, Program(WITNESS_RANGE_BOUND, [Entry('bound', [('n', INT)], INT, [[3], [7]])], {}, {}, set(), []), 'witness-range-bound'))
			uid += 1
		n = N_PROGRAMS[ctx.tier]
		for i in range(n):
			if not ctx.mine(i):
				continue
			r = ctx.rng('program', i)
			g = TypedGen(r, size=r.choice([3, 5, 8] if ctx.quick else [3, 5, 8, 14]), opts={**RANDOM_OPTS, **GEN_OPTS})
			units.append(Unit(uid, g.program(), 'typed'))
			uid += 1
		for b in range(0, len(units), PER_TU):
			if ctx.out_of_time():
				acc.truncated_by_budget = True
				break
			try:
				process_batch(acc, units[b:b + PER_TU], workdir, b)
			except Exception as e:  # noqa
				acc.extra.setdefault('harness_errors', []).append(fmt_exc(e))
				return
	finally:
		shutil.rmtree(workdir, ignore_errors=True)


def replay(ctx: Ctx, case: dict, acc: Acc) -> None:
	from vf.cpp import driver as drv
	from vf.gen.typed import Entry, Program
	def tt(x):
		return tuple(tt(y) if isinstance(y, list) else y for y in x)
	entries = [Entry(n, [(pn, tt(pt)) for pn, pt in ps], tt(rt), vecs) for n, ps, rt, vecs in case['entries']]
	if case.get('entry'):
		entries = [e for e in entries if e.name == case['entry']] or entries
	prog = Program(case['source'], entries, {}, {}, set(), [])
	# class table for object reprs is rebuilt from the source by the generator only; replays compare scalar/container results
	workdir = tempfile.mkdtemp(prefix='vf-c01-replay-')
	try:
		drv.build_pch(workdir)
		process_batch(acc, [Unit(0, prog, case.get('kind', 'typed'))], workdir, 0)
	finally:
		shutil.rmtree(workdir, ignore_errors=True)
