"""C14 — exporting and re-importing the symbol table loses nothing.

For every module of generated multi-module programs and of the repository's stub libraries / fixtures: snapshot every symbol of the
module from the live table, export it with the real serializer, pass it through JSON text, unload the module from the table,
import it back and compare symbol by symbol; replay the export order against a recording mapping that refuses forward
references; import a second time and compare again.
"""
from __future__ import annotations

import json
import random

from vf.common import Acc, Ctx, sig_of, fmt_exc

LEVEL = 'exploration'
RULE = ('module sets: generated chains / diamonds / pairs of typed modules (classes with fields of nested generic types, enums, inherited methods, cross-module origins) '
	'plus the stub libraries and test fixtures of the repository; one evaluation = one module exported and re-imported; distinct = distinct multiset of symbol type descriptions; '
	'non-trivial = the module holds a symbol with nested type arguments or a cross-module origin')
ASSUMPTIONS = [
	'a symbol is described by (class of the reflection, type full name with nested argument descriptions to depth 6, node path, declaration path, via type); object identity is not demanded',
	'nodes are looked up again through the live Entrypoints, as the real restore path does (the module stays loaded, only the table forgets it)',
]
SHARDS = {'quick': 8, 'thorough': 16}
BUDGET_S = {'quick': 50, 'thorough': 540}
N_SETS = {'quick': 240, 'thorough': 4000}
MIN_OBS = {'symbols_compared': {'quick': 10000, 'thorough': 100000}}

REAL_MODULES = [
	'rogw.tranp.compatible.libralies.classes',
	'tests.unit.rogw.tranp.semantics.fixtures.fixture_reflections',
	'tests.unit.rogw.tranp.implements.cpp.transpiler.fixtures.fixture_py2cpp',
	'tests.unit.rogw.tranp.semantics.reflection.fixtures.fixture_db',
	'example.json',
]

EXTRA = '''
class Deep:
	table: dict[str, list[tuple[int, dict[str, int]]]]
	pairs: list[tuple[int, str]]
	maybe: int | None

	def __init__(self) -> None:
		self.table = {}
		self.pairs = []
		self.maybe = None

	def first(self) -> tuple[int, dict[str, int]]:
		return self.table['a'][0]

	def keys_of(self) -> list[str]:
		return [k for k, v in self.table.items()]


def use_deep(n: int) -> int:
	dd = Deep()
	dd.pairs.append((n, 'x'))
	a, b = dd.pairs[0]
	inner = {'k': [dd.pairs]}
	return a + len(b) + len(inner)
'''


def wide_project(r: random.Random, prefix: str) -> tuple[dict[str, str], list[str]]:
	"""Two modules built around what the fixtures of the repository never have: more than ten attributes on one level (parameters, tuple
	elements, union members), forward references to a later class three and more type arguments deep, and imported module-level
	variables whose types carry arguments."""
	a, b = prefix + 'a', prefix + 'b'
	pool = ['int', 'str', 'float', 'bool', 'list[int]', 'dict[str, int]', 'tuple[int, str]', 'Item', 'list[Item]', 'dict[str, list[Item]]', 'list[tuple[int, Item]]', 'dict[str, tuple[int, list[str]]]']
	n = r.choice([10, 11, 12, 14])
	ptypes = [r.choice(pool) for _ in range(n)]
	params = ', '.join(f'a{i}: {t}' for i, t in enumerate(ptypes))
	m = r.choice([11, 12, 13])
	cells = ', '.join(r.choice(pool) for _ in range(m))
	deep = r.choice(["dict[str, list[Entry]]", "list[dict[str, list[Entry]]]", "dict[str, tuple[int, list[Entry]]]", "dict[str, list[Entry | None]]"])
	lib = f'''from collections.abc import Callable
from typing import Generic, TypeVar


T = TypeVar('T')


class Cell(Generic[T]):
	v: T

	def __init__(self, v: T) -> None:
		self.v = v

	def both(self) -> tuple[T, T]:
		return (self.v, self.v)

	def spread(self) -> dict[T, list[T]]:
		return {{self.v: [self.v]}}


class Item:
	n: int

	def __init__(self) -> None:
		self.n = 1


PENDING = []
CACHE = {{'a': []}}
table: dict[str, list[Item]] = {{}}
names: list[str] = ['a']
pairs = [(1, 'a')]
nested: dict[str, tuple[int, list[str]]] = {{}}
limit = 3


class Registry:
	def find(self, key: str) -> '{deep}':
		return {{}}

	def visit(self, f: 'Callable[[list[Entry]], {deep}]') -> None:
		pass

	def lookup(self, books: 'dict[str, dict[str, list[tuple[int, list[Entry]]]]]') -> 'list[dict[str, list[tuple[int, dict[str, Entry]]]]]':
		return []

	def held(self) -> 'Cell[Entry]':
		return Cell(Entry())

	def held_many(self) -> 'Cell[list[Entry]]':
		return Cell([Entry()])

	def late(self) -> 'Cell[Late]':
		return Cell(Late())

	def late_deep(self) -> 'Cell[Cell[Later]]':
		return Cell(Cell(Later()))


class Entry:
	v: int

	def __init__(self) -> None:
		self.v = 0


def wide({params}) -> tuple[{', '.join(ptypes)}]:
	return ({', '.join(f'a{i}' for i in range(n))})


class Late:
	# referred to only through a generic class of this module, from a method further up
	z: int

	def __init__(self) -> None:
		self.z = 0


class Later:
	z: int

	def __init__(self) -> None:
		self.z = 0


class Row:
	cells: tuple[{cells}]
	many: int | str | float | bool | list[int] | dict[str, int] | Item | list[Item] | tuple[int, str] | list[str] | dict[str, str] | None

	def __init__(self, cells: tuple[{cells}]) -> None:
		self.cells = cells
		self.many = None
'''
	main = f'''from {a} import table, names, pairs, nested, limit, PENDING, CACHE, Item, Row, Registry, Cell, wide


def use(row: Row) -> int:
	t = table
	n = names
	p = pairs
	d = nested
	c = row.cells
	w = wide
	reg = Registry()
	found = reg.find('k')
	looked = reg.lookup({{}})
	empty_list = []
	empty_dict = {{}}
	half = (limit, [])
	pend = PENDING
	cache = CACHE
	cell = Cell(3)
	p = cell.both()
	q = cell.spread()
	held = reg.held()
	hv = held.v
	scell = Cell('s')
	sp = scell.both()
	return limit + len(t) + len(n) + len(p) + len(d)
'''
	return {a: lib, b: main}, [a, b]


def describe(sym, depth: int = 12) -> tuple:
	if depth <= 0:
		return ('...',)
	try:
		attrs = tuple(describe(a, depth - 1) for a in sym.attrs)
	except Exception as e:  # noqa
		attrs = ('attrs-raise:' + type(e).__name__,)
	return (sym.types.fullyname, attrs)


def snapshot(db, module: str) -> dict[str, tuple]:
	out = {}
	for key, sym in db.items(module):
		try:
			via = sym.via.types.fullyname
		except Exception as e:  # noqa
			via = 'via-raise:' + type(e).__name__
		out[key] = (type(sym).__name__, describe(sym), sym.node.module_path + '#' + sym.node.full_path, sym.decl.module_path + '#' + sym.decl.full_path, via)
	return out


def check_module(acc: Acc, s, module: str, case: dict) -> None:
	from rogw.tranp.semantics.reflection.serialization import IReflectionSerializer
	db = s.db
	serializer = s.get(IReflectionSerializer)
	before = snapshot(db, module)
	if not before:
		acc.inconc('module has no symbols in the table', module)
		return
	nontrivial = any(len(v[1][1]) > 0 and any(len(a[1]) > 0 for a in v[1][1] if len(a) > 1) for v in before.values()) or any(not v[1][0].startswith(module) for v in before.values())
	def bad(kind: str, detail: str) -> None:
		acc.violation(kind, f'{module}: {detail}', case)
	try:
		data = db.to_json(serializer, module)
		text = json.dumps(data, separators=(',', ':'))
		data2 = json.loads(text)
	except Exception as e:  # noqa
		bad('export/raise', f'{type(e).__name__}: {e}')
		return
	acc.see('law', 'export')
	# exporting is a pure reading of the table: a second export gives the same rows in the same order
	try:
		again = json.dumps(db.to_json(serializer, module), separators=(',', ':'))
	except Exception as e:  # noqa
		bad('export/raise', f'second export: {type(e).__name__}: {e}')
		return
	acc.see('law', 'export-twice')
	if again != text:
		k1, k2 = list(data2), list(json.loads(again))
		i = next((j for j, (a, b) in enumerate(zip(k1, k2)) if a != b), min(len(k1), len(k2)))
		bad('export/second-export-differs', f'row order or content differs between two exports in a row; first differing key #{i}: {k1[i] if i < len(k1) else None} vs {k2[i] if i < len(k2) else None}')
		return
	if set(data2) != set(before):
		bad('export/keys', f'exported {len(data2)} keys, the table holds {len(before)} for the module; missing {sorted(set(before) - set(data2))[:4]}, extra {sorted(set(data2) - set(before))[:4]}')
		return
	# export order: import never refers to a key that is not present yet
	known = {k for k in db.keys() if k not in before}
	seen: set[str] = set()
	for key, row in data2.items():
		refs = list(row.get('attrs', {}).values())
		if row['class'] == 'Reflection':
			refs += [row['origin'], row['via']]
		for ref in refs:
			acc.see('law', 'order-ref')
			if ref not in known and ref not in seen and ref != key:
				bad('export/forward-reference', f'row {key!r} refers to {ref!r} which comes later in the export (or not at all)')
				return
		seen.add(key)
	total_before = len(db)
	db.unload(module)
	if db.completed(module) or any(True for _ in db.items(module)):
		bad('unload/incomplete', 'symbols or completion mark left after unload')
		return
	for round_no in (1, 2):
		try:
			db.import_json(serializer, data2)
		except Exception as e:  # noqa
			bad('import/raise', f'round {round_no}: {type(e).__name__}: {str(e)[:300]}')
			return
		after = snapshot(db, module)
		acc.see('law', f'import-round-{round_no}')
		if list(after) != list(data2):
			bad('import/keys', f'round {round_no}: key order/set after import differs from the exported data')
			return
		for key in before:
			acc.see('symbols_compared', 'round' + str(round_no))
			if after.get(key) != before[key]:
				bad('import/symbol-differs', f'round {round_no}: {key}: before {before[key]} after {after.get(key)}')
				return
		if not db.completed(module):
			bad('import/not-completed', f'round {round_no}: module does not count as completed')
			return
		if len(db) != total_before:
			bad('import/size', f'round {round_no}: table has {len(db)} symbols, had {total_before}')
			return
	# the table restored from the export exports to the same data again (order replayed against forward references once more)
	try:
		data3 = json.loads(json.dumps(db.to_json(serializer, module), separators=(',', ':')))
	except Exception as e:  # noqa
		bad('export/raise', f'export of the re-imported table: {type(e).__name__}: {e}')
		return
	acc.see('law', 'export-after-import')
	seen2: set[str] = set()
	for key, row in data3.items():
		refs = list(row.get('attrs', {}).values()) + ([row['origin'], row['via']] if row['class'] == 'Reflection' else [])
		for ref in refs:
			if ref not in known and ref not in seen2 and ref != key:
				bad('export/forward-reference', f'export of the re-imported table: row {key!r} refers to {ref!r} which comes later (or not at all)')
				return
		seen2.add(key)
	if data3 != data2:
		diff = next((k for k in data2 if data3.get(k) != data2[k]), None)
		bad('export/after-import-differs', f'the re-imported table exports other data than was imported; first differing row {diff!r}: {data2.get(diff)} vs {data3.get(diff)}')
		return
	acc.case(sig_of(sorted(str(v[1]) for v in before.values())), {'module': module, 'symbols': len(before), 'sample': [f'{k}: {v[1]}'[:160] for k, v in list(before.items())[:3]]}, nontrivial)


# committed witnesses: a repaired defect (forward reference to a generic class above its TypeVar) and an open finding
WITNESS_FORWARD_GENERIC = "from typing import Generic, TypeVar\n\n\nclass Entry:\n\tdef f(self, b: 'Box[int]') -> None:\n\t\tpass\n\n\nT = TypeVar('T')\n\n\nclass Box(Generic[T]):\n\tv: T\n\n\tdef __init__(self, v: T) -> None:\n\t\tself.v = v\n\n\tdef back(self) -> 'list[Entry]':\n\t\treturn []\n"
WITNESS_SELF_REFERENTIAL = "from typing import Generic, TypeVar\n\nT = TypeVar('T')\n\n\nclass Cmp(Generic[T]):\n\tdef lt(self, o: T) -> bool:\n\t\treturn True\n\n\nclass Version(Cmp['Version']):\n\tpass\n"


def classify(v: dict) -> str | None:
	"""Open finding 'self-referential-generic-base-not-exportable': class Version(Cmp['Version']) - the attributes of the class row form a
	cycle (Version -> Cmp<Version> -> Version ...) and the export (key ordering, attribute flattening) recurses without end.
	Matched only on the committed witness module and on that outcome."""
	if v['kind'] == 'export/raise' and v.get('case', {}).get('kind') == 'witness-self-referential' and 'RecursionError' in v['detail']:
		return 'self-referential-generic-base-not-exportable'
	return None


def shard(ctx: Ctx, acc: Acc) -> None:
	from rogw.tranp.errors import Errors
	from vf.gen.multi import make_project
	from vf.session import Session
	s = Session()
	if ctx.shard == 0:
		for name, text, kind in (('vf14_wit_fwd', WITNESS_FORWARD_GENERIC, 'witness-forward-generic'), ('vf14_wit_self', WITNESS_SELF_REFERENTIAL, 'witness-self-referential')):
			try:
				s.set_source(name, text)
				s.load(name)
				check_module(acc, s, name, {'kind': kind, 'sources': {name: text}, 'order': [name], 'module': name})
			except Errors.Error as e:
				acc.inconc('witness module not loadable: ' + type(e).__name__, name)
	for j, m in enumerate(REAL_MODULES):
		if j % ctx.nshards != ctx.shard:
			continue
		case = {'kind': 'real', 'module': m}
		try:
			s.load(m)
			check_module(acc, s, m, case)
		except Errors.Error as e:
			acc.inconc('real module not loadable: ' + type(e).__name__, m)
		except FileNotFoundError:
			acc.inconc('real module file missing', m)
		except Exception as e:  # noqa
			acc.extra.setdefault('harness_errors', []).append(fmt_exc(e) + m)
			return
	n = N_SETS[ctx.tier]
	for i in range(n):
		if not ctx.mine(i):
			continue
		if ctx.out_of_time():
			acc.truncated_by_budget = True
			break
		r = ctx.rng('set', i)
		if i % 5 == 1:
			sources, order = wide_project(r, f'vf14w_{i}_')
			shape = 'wide'
		else:
			shape = r.choice(['chain', 'diamond', 'pair', 'single'])
			pr = make_project(r, shape, prefix=f'vf14_{i}_', size=r.choice([3, 5]))
			sources = {n2: p.source for n2, p in pr.modules.items()}
			order = pr.order
			last = order[-1]
			if r.random() < 0.5:
				sources[last] += EXTRA
		acc.see('project_shape', shape)
		case = {'kind': 'generated', 'shape': shape, 'sources': sources, 'order': order}
		try:
			for n2, src in sources.items():
				s.set_source(n2, src)
			for n2 in order:
				s.load(n2)
			# modules are checked leaves-last so that dependants are still in the table while a dependency is re-imported
			for n2 in reversed(order):
				check_module(acc, s, n2, dict(case, module=n2))
			if shape == 'wide' and i % 2 == 1:
				# the same modules again after an edit that keeps every tree path and changes what stands there
				edited = {n2: src.replace('Entry', 'Record').replace('Item', 'Piece').replace('n: int', 'n: str').replace('self.n = 1', "self.n = 'p'") for n2, src in sources.items()}
				for n2 in reversed(order):
					s.unload(n2)
				for n2, src in edited.items():
					s.set_source(n2, src)
				for n2 in order:
					s.load(n2)
				acc.see('project_shape', 'wide-after-edit')
				for n2 in reversed(order):
					check_module(acc, s, n2, dict(case, module=n2, sources=edited, edited=True))
			for n2 in reversed(order):
				s.unload(n2)
				s.sources.pop(n2, None)
		except Errors.Error as e:
			acc.inconc('generated module set rejected: ' + type(e).__name__, str(e)[:200])
		except Exception as e:  # noqa
			acc.extra.setdefault('harness_errors', []).append(fmt_exc(e) + repr(case)[:400])
			return


def replay(ctx: Ctx, case: dict, acc: Acc) -> None:
	from vf.session import Session
	s = Session()
	if case.get('kind') == 'real':
		s.load(case['module'])
		check_module(acc, s, case['module'], case)
		return
	for n2, src in case['sources'].items():
		s.set_source(n2, src)
	for n2 in case['order']:
		s.load(n2)
	for n2 in reversed(case['order']):
		check_module(acc, s, n2, case)
