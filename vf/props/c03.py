"""C03 — inferred static types equal the types values have at run time.

The generated program is instrumented (every expression wrapped in a recorder, parameters / assignment targets / loop variables
recorded) and executed under CPython on its argument vectors; for every node tranp can be asked about, Reflections.type_of(node)
in the short notation is parsed and must denote every value recorded for the expression at the same source span.
"""
from __future__ import annotations

import ast
import random

from vf.common import Acc, Ctx, sig_of, fmt_exc
from vf.oracle import pytype

LEVEL = 'exploration'
RULE = ('programs from vf.gen.typed biased to compositions (method results indexed, attributes of container elements, destructuring from tuples, inherited methods/properties, classmethods, '
	'dict.get, enumerate, nested generics via an appended fixture); every expression / declaration node with a source span that was executed at least once is one comparison; one evaluation = one program; '
	'distinct = distinct program text; non-trivial = the program holds a class or a container-typed local')
ASSUMPTIONS = [
	'expressions never executed yield no observation and are skipped (counted)', 'an empty run-time container matches any element type; Union<T, None> is satisfied by T or None',
	'nodes denoting functions, methods and classes themselves are compared only on being callable / being a type',
]
SHARDS = {'quick': 8, 'thorough': 16}
BUDGET_S = {'quick': 45, 'thorough': 540}
N_PROGRAMS = {'quick': 160, 'thorough': 4000}
MIN_OBS = {'comparisons': {'quick': 3000, 'thorough': 60000}}

_SESSION = None

FIXTURE = '''

class Shelf:
	rows: dict[str, list[tuple[int, str]]]
	tags: list[str]

	def __init__(self) -> None:
		self.rows = {'a': [(1, 'x'), (2, 'y')]}
		self.tags = ['t']

	def first(self, key: str) -> tuple[int, str]:
		return self.rows[key][0]

	def lens(self) -> list[int]:
		return [len(v) for k, v in self.rows.items()]

	def pick(self, key: str) -> int:
		n, s = self.first(key)
		return n + len(s)


def use_shelf(n: int) -> int:
	sh = Shelf()
	row = sh.rows['a']
	cell = row[0]
	num = cell[0]
	txt = sh.first('a')[1]
	total = 0
	for i, pair in enumerate(row):
		total += pair[0] + i
	counts = {t: len(t) for t in sh.tags}
	got = counts.get('t', n)
	return total + num + len(txt) + got + sh.pick('a') + sh.lens()[0]
'''


def session():
	global _SESSION
	if _SESSION is None:
		from vf.session import Session
		_SESSION = Session()
	return _SESSION


class Instrument(ast.NodeTransformer):
	"""Wrap every Load expression e as __vf_rec(k, e); record parameters, assignment targets and loop variables by the span of their name."""

	def __init__(self) -> None:
		self.spans: dict[int, tuple[int, int, int, int]] = {}
		self.n = 0

	def key(self, node: ast.AST) -> int:
		self.n += 1
		self.spans[self.n] = (node.lineno, node.col_offset + 1, node.end_lineno, node.end_col_offset + 1)
		return self.n

	def rec(self, node: ast.expr) -> ast.expr:
		k = self.key(node)
		return ast.copy_location(ast.Call(ast.Name('__vf_rec__', ast.Load()), [ast.Constant(k), node], []), node)

	def generic_visit(self, node):
		return super().generic_visit(node)

	def visit(self, node):
		if isinstance(node, ast.expr):
			if isinstance(getattr(node, 'ctx', None), (ast.Store, ast.Del)):
				return node
			if isinstance(node, (ast.Starred, ast.Slice, ast.JoinedStr, ast.FormattedValue)):
				return self.generic_visit(node)
			new = self.generic_visit(node)
			return self.rec(new)
		if isinstance(node, (ast.FunctionDef,)):
			# annotations / decorators / defaults stay as they are
			node.body = self.flat([self.visit(s) for s in node.body])
			node.args.defaults = [self.visit(d) for d in node.args.defaults]
			pre = []
			for a in node.args.args:
				k = self.key(a)
				# span of the parameter *name*
				self.spans[k] = (a.lineno, a.col_offset + 1, a.lineno, a.col_offset + 1 + len(a.arg))
				pre.append(ast.Expr(ast.Call(ast.Name('__vf_rec__', ast.Load()), [ast.Constant(k), ast.Name(a.arg, ast.Load())], [])))
			node.body = pre + node.body
			return node
		if isinstance(node, ast.ClassDef):
			node.body = self.flat([self.visit(s) for s in node.body])
			return node
		if isinstance(node, ast.AnnAssign):
			if node.value is not None:
				node.value = self.visit(node.value)
				return [node] + self.record_targets([node.target])
			return node
		if isinstance(node, ast.Assign):
			node.value = self.visit(node.value)
			return [node] + self.record_targets(node.targets)
		if isinstance(node, ast.AugAssign):
			node.value = self.visit(node.value)
			return [node] + self.record_targets([node.target])
		if isinstance(node, ast.For):
			node.iter = self.visit(node.iter)
			node.body = self.flat([self.visit(s) for s in node.body])
			node.body = self.record_targets([node.target]) + node.body
			return node
		if isinstance(node, ast.ExceptHandler):
			node.body = self.flat([self.visit(s) for s in node.body])
			return node
		if isinstance(node, (ast.Import, ast.ImportFrom)):
			return node
		return self.generic_visit(node)

	def flat(self, items: list) -> list:
		out = []
		for it in items:
			if isinstance(it, list):
				out.extend(it)
			else:
				out.append(it)
		return out

	def record_targets(self, targets: list) -> list:
		out = []
		for t in targets:
			if isinstance(t, (ast.Tuple, ast.List)):
				out += self.record_targets(t.elts)
			elif isinstance(t, ast.Name):
				k = self.key(t)
				out.append(ast.Expr(ast.Call(ast.Name('__vf_rec__', ast.Load()), [ast.Constant(k), ast.Name(t.id, ast.Load())], [])))
			elif isinstance(t, ast.Attribute) and isinstance(t.value, ast.Name):
				k = self.key(t)
				out.append(ast.Expr(ast.Call(ast.Name('__vf_rec__', ast.Load()), [ast.Constant(k), ast.Attribute(ast.Name(t.value.id, ast.Load()), t.attr, ast.Load())], [])))
		for o in out:
			ast.fix_missing_locations(o)
		return out


def generic_ranges(tree: ast.Module) -> list[tuple[int, int, frozenset]]:
	"""(first line, last line, type parameter names) of every generic function / class: inside them a type parameter is a legitimate
	static type (it stands for whatever the definition is instantiated with); anywhere else it is an unresolved type."""
	out = []
	for n in ast.walk(tree):
		if isinstance(n, (ast.FunctionDef, ast.ClassDef)):
			names = {tp.name for tp in getattr(n, 'type_params', [])}
			if isinstance(n, ast.ClassDef):
				for b in n.bases:
					if isinstance(b, ast.Subscript) and isinstance(b.value, ast.Name) and b.value.id == 'Generic':
						elts = b.slice.elts if isinstance(b.slice, ast.Tuple) else [b.slice]
						names |= {e.id for e in elts if isinstance(e, ast.Name)}
			if names:
				out.append((n.lineno, n.end_lineno, frozenset(names)))
	return out


def typevars_at(ranges: list, line: int) -> frozenset:
	tv: frozenset = frozenset()
	for a, b, names in ranges:
		if a <= line <= b:
			tv |= names
	return tv


def observe(source: str, entries, lib: dict | None = None) -> tuple[dict[str, dict[tuple, list]], int]:
	"""Run the instrumented program (and, when given, its instrumented library module, importable under lib['name']);
	returns {module name: {span: [values]}}, number of completed entry calls."""
	import sys
	import types
	values: dict[tuple, list] = {}

	def instrument(text: str, tag: str):
		tree = ast.parse(text)
		ins = Instrument()
		new_body = []
		for st in tree.body:
			r = ins.visit(st)
			new_body.extend(r if isinstance(r, list) else [r])
		tree.body = new_body
		ast.fix_missing_locations(tree)

		def rec(k, v):
			lst = values.setdefault((tag, k), [])
			if len(lst) < 12:
				lst.append(pytype.snap(v))
			return v
		return tree, ins, rec
	inss = {}
	calls = 0
	try:
		if lib:
			tree, ins, rec = instrument(lib['source'], lib['name'])
			inss[lib['name']] = ins
			mod = types.ModuleType(lib['name'])
			mod.__dict__['__vf_rec__'] = rec
			sys.modules[lib['name']] = mod
			exec(compile(tree, f'<c03:{lib["name"]}>', 'exec'), mod.__dict__)  # noqa: S102
		tree, ins, rec = instrument(source, '__main__')
		inss['__main__'] = ins
		ns = {'__vf_rec__': rec, '__name__': '__vf_prog__'}
		exec(compile(tree, '<c03>', 'exec'), ns)  # noqa: S102
		for name, vectors in entries:
			fn = ns.get(name)
			if fn is None:
				continue
			for vec in vectors:
				try:
					fn(*vec)
					calls += 1
				except Exception:  # noqa
					pass
	finally:
		if lib:
			sys.modules.pop(lib['name'], None)
	by_mod: dict[str, dict[tuple, list]] = {m: {} for m in inss}
	for (tag, k), vals in values.items():
		by_mod[tag].setdefault(inss[tag].spans[k], []).extend(vals)
	return by_mod, calls


def check_program(acc: Acc, case: dict) -> None:
	from rogw.tranp.errors import Errors
	source = case['source']
	entries = case['entries']
	lib = case.get('lib')
	try:
		by_mod, calls = observe(source, entries, lib)
	except Exception as e:  # noqa
		acc.case(None)
		acc.inconc('CPython cannot run the instrumented program (harness/generator): ' + type(e).__name__, str(e)[:200])
		return
	s = session()
	try:
		s.unload('__main__')
		mods = []
		if lib:
			mods.append((lib['name'], lib['source'], s.reload(lib['name'], lib['source'])))
		mods.append(('__main__', source, s.reload('__main__', source)))
	except Errors.Error as e:
		acc.case(sig_of(source), None, True)
		acc.violation('program-rejected', f'{type(e).__name__}: {str(e)[:300]}', case)
		return
	nontrivial = 'class ' in source or 'list[' in source
	compared = 0
	for name, text, module in mods:
		n = compare_module(acc, case, s, module, text, by_mod.get(name, {}), name)
		if n < 0:
			break
		compared += n
	acc.case(sig_of((source, lib and lib['source'])), {'compared_nodes': compared, 'calls': calls, 'modules': [m[0] for m in mods], 'source_head': source[-400:]}, nontrivial)


def compare_module(acc: Acc, case: dict, s, module, source: str, by_span: dict, modname: str) -> int:
	"""-> number of compared nodes, -1 after an inference error (the rest of the program is not looked at)"""
	from rogw.tranp.errors import Errors
	from rogw.tranp.semantics.reflection.helper.naming import ClassShorthandNaming
	import rogw.tranp.syntax.node.definition as defs
	kinds = (defs.Var, defs.Relay, defs.FuncCall, defs.Indexer, defs.BinaryOperator, defs.Factor, defs.NotCompare, defs.TernaryOperator, defs.Integer, defs.Float, defs.String,
		defs.Truthy, defs.Falsy, defs.List, defs.Dict, defs.Tuple, defs.ListComp, defs.DictComp, defs.Declable)
	compared = 0
	found = 0
	ranges = generic_ranges(ast.parse(source))
	for n in module.entrypoint.procedural():
		if not isinstance(n, kinds) or isinstance(n, (defs.TypesName, defs.ImportAsName, defs.ImportName)):
			continue
		sm = n.source_map
		span = (sm['begin'][0], sm['begin'][1], sm['end'][0], sm['end'][1])
		vals = by_span.get(span)
		if not vals:
			acc.see('skipped', type(n).__name__)
			continue
		if n.tokens.startswith('StopIteration'):
			acc.see('skipped', 'StopIteration (not in the stub library)')
			continue
		try:
			text = ClassShorthandNaming.domain_name_for_debug(s.reflections.type_of(n))
		except Errors.Error as e:
			acc.violation('inference-raises', f'type_of({type(n).__name__} {n.tokens[:40]!r} at {modname} line {span[0]}) raised {type(e).__name__} although the expression ran and yielded {pytype.describe(vals[0])}\n{source_line(source, span)}', dict(case, span=span, module=modname))
			return -1
		try:
			static = pytype.parse_static(text)
		except Exception:  # noqa
			acc.inconc('short notation not parsed', text)
			continue
		compared += 1
		acc.see('comparisons', type(n).__name__)
		acc.see('static_type', static[0] if static[0] != 'fn' else 'function')
		acc.see('module_kind', 'library' if modname != '__main__' else 'main')
		for v in vals:
			reason = pytype.matches(static, v, typevars_at(ranges, span[0]))
			if reason is not None:
				acc.violation('type-differs', f'{type(n).__name__} {n.tokens[:40]!r} at {modname} line {span[0]}: inferred {text!r}, run-time value {pytype.describe(v)}: {reason}\n{source_line(source, span)}', dict(case, span=span, module=modname, meta=node_meta(n, text, v, ranges, span[0], source)))
				found += 1
				break
		if found >= 6:
			break
	return compared


def node_meta(n, text: str, v, ranges: list, line: int, source: str) -> dict:
	import re
	import rogw.tranp.syntax.node.definition as defs
	from rogw.tranp.semantics.reflection.helper.naming import ClassShorthandNaming
	callee = n.calls.tokens if isinstance(n, defs.FuncCall) else ''
	arg_static = []
	if isinstance(n, defs.FuncCall):
		for a in n.arguments:
			try:
				arg_static.append(ClassShorthandNaming.domain_name_for_debug(session().reflections.type_of(a)))
			except Exception:  # noqa
				arg_static.append('?')
	all_tv = frozenset().union(*[names for _, _, names in ranges]) if ranges else frozenset()
	foreign = sorted((set(re.findall(r'\w+', text)) & all_tv) - typevars_at(ranges, line))
	return {'kind': type(n).__name__, 'callee': callee, 'static': text, 'dynamic': pytype.describe(v), 'foreign_typevars': foreign, 'arg_static': arg_static, 'line_text': source_line(source, (line,))}


def source_line(source: str, span: tuple) -> str:
	lines = source.split('\n')
	return lines[span[0] - 1] if 0 < span[0] <= len(lines) else ''


def classify(v: dict) -> str | None:
	"""Open finding 'explicit-init-call-typed-as-class': a call spelled `<receiver>.__init__(...)` (in practice super().__init__(...)) is
	given the class as its type (the Constructor schema returns the class so that `C(...)` can be typed through `C.__init__`), while
	under CPython the call evaluates to None. Matched only on that mechanism: FuncCall node, callee ending in .__init__, run-time None."""
	m = v.get('case', {}).get('meta') or {}
	if v['kind'] == 'type-differs' and m.get('kind') == 'FuncCall' and m.get('callee', '').endswith('.__init__') and m.get('dynamic') == 'None' and m.get('static', '')[:1].isupper():
		return 'explicit-init-call-typed-as-class'
	# Open finding 'lambda-parameter-keeps-callee-type-parameter': f(lambda q: ..., x) with def f[A, B](g: Callable[[A], B], a: A) -> B -
	# the lambda's parameter is typed 'A' (the callee's type parameter, which means nothing at the call site) instead of the type of x.
	# Matched only when the static type names a type parameter that is not in scope at that line and the line passes a lambda.
	if v['kind'] == 'type-differs' and m.get('foreign_typevars') and 'lambda ' in m.get('line_text', '') and m.get('kind') in ('Var', 'DeclLocalVar', 'List', 'FuncCall', 'DeclParam'):
		return 'lambda-parameter-keeps-callee-type-parameter'
	# Open finding 'optional-argument-collapses-to-first-member': ident(o) with o: int | None and def ident[T](v: T) -> T is typed int.
	# Matched only on: call node, an argument statically Union<X, None>, the call statically X, the run-time value None.
	if v['kind'] == 'type-differs' and m.get('kind') == 'FuncCall' and m.get('dynamic') == 'None' and any(a == f'Union<{m.get("static")}, None>' for a in m.get('arg_static', [])):
		return 'optional-argument-collapses-to-first-member'
	# Open finding 'generic-method-result-through-second-level-subclass': Box[T].first() -> T called on an instance of Counter, where
	# Counter(IntBox) and IntBox(Box[int]): the result is typed as the receiver's class. Matched only on the committed witness and on
	# exactly that static type.
	if v['kind'] == 'type-differs' and v.get('case', {}).get('witness') == 'inherited-generic-method' and m.get('static') in ('Counter', 'list<Counter>') and m.get('dynamic') in ('int', 'list<int>', 'list[int]'):
		return 'generic-method-result-through-second-level-subclass'
	return None


WITNESS_INHERITED_GENERIC_METHOD = '''from typing import Generic, TypeVar

T = TypeVar('T')


class Box(Generic[T]):
	items: list[T]

	def __init__(self, v: T) -> None:
		self.items = [v]

	def first(self) -> T:
		return self.items[0]

	def all(self) -> list[T]:
		return self.items


class IntBox(Box[int]):
	pass


class Counter(IntBox):
	pass


def entry(n: int) -> int:
	one = IntBox(n).first()
	two = Counter(n).first()
	many = Counter(n).all()
	return n
'''


PROTOCOLS = '''from collections.abc import Callable, Iterator


class Account:
	owner: str
	balance: float

	def __init__(self, owner: str, balance: float) -> None:
		self.owner = owner
		self.balance = balance

	def history(self) -> list[int]:
		return [1, 2]


class Countdown:
	n: int

	def __init__(self, n: int) -> None:
		self.n = n

	def __iter__(self) -> 'Countdown':
		return self

	def __next__(self) -> int:
		if self.n <= 0:
			raise StopIteration()

		self.n = self.n - 1
		return self.n


class Evens:
	limit: int

	def __init__(self, limit: int) -> None:
		self.limit = limit

	def __iter__(self) -> Iterator[int]:
		return iter([n * 2 for n in range(self.limit)])


class Named:
	tag: int

	def __init__(self) -> None:
		self.tag = 1

	def describe(self) -> str:
		return 'named'

	def only_named(self) -> float:
		return 0.5


class Sized:
	tag: float

	def __init__(self) -> None:
		self.tag = 2.5

	def describe(self) -> int:
		return 7

	def only_sized(self) -> list[int]:
		return [1]


class Both(Named, Sized):
	def __init__(self) -> None:
		Named.__init__(self)


def visit(names: list[str], each: Callable[[str, int], bool] | None, ratio: Callable[[float], None] | None) -> int:
	n = 0
	if each:
		for i, name in enumerate(names):
			if each(name, i):
				n = n + 1

	if ratio:
		ratio(0.5)

	return n


def visit_plain(names: list[str], each: Callable[[str, int], bool]) -> int:
	return 1 if each(names[0], 0) else 0


def find(accounts: list[Account], owner: str) -> None | Account:
	for account in accounts:
		if account.owner == owner:
			return account

	return None


def find_usual(accounts: list[Account], owner: str) -> Account | None:
	for account in accounts:
		if account.owner == owner:
			return account

	return None


def protocols(flag: bool) -> int:
	total = 0
	for tick in Countdown(3):
		last = tick
		total = total + tick

	ticks = [t for t in Countdown(2)]
	pairs = {str(t): t for t in Countdown(2)}
	for even in Evens(2):
		seen = even

	accounts = [Account('ann', 1.5), Account('bob', 2.5)]
	hit = find(accounts, 'bob')
	hit_owner = hit.owner if hit else ''
	hit_balance = hit.balance if hit else 0.0
	hit_first = hit.history()[0] if hit else 0
	miss = find(accounts, 'zed')
	miss_owner = miss.owner if miss else ''
	usual = find_usual(accounts, 'ann')
	usual_owner = usual.owner if usual else ''
	cached = None if flag else accounts
	first = cached[0] if cached else accounts[0]
	late: None | Account = accounts[0]
	late_balance = late.balance if late else 0.0
	xs = [1, 2]
	ys = ['a']
	pick = xs if flag else ys
	d1 = {'k': 1}
	d2 = {'k': 1.5}
	dpick = d1 if flag else d2
	t1 = (1, 'a')
	t2 = ('a', 1)
	tpick = t1 if flag else t2
	both = Both()
	bd = both.describe()
	bt = both.tag
	bn = both.only_named()
	bs = both.only_sized()
	bl = [both.describe()]
	bm = {both.tag: len(both.describe())}
	seen_names = visit(['a', 'bc'], lambda name, rank: len(name) > rank, lambda ratio: None)
	seen_plain = visit_plain(['a'], lambda name2, rank2: len(name2) > rank2)
	opt_a = 1 if flag else None
	opt_b = None if flag else 'x'
	return total
'''


PROTOCOLS2 = '''from typing import Generic, TypeVar, override

T = TypeVar('T')


class Shape:
	side: float

	def __init__(self, side: float) -> None:
		self.side = side

	@property
	def area(self) -> float:
		return 0.0

	@property
	def corners(self) -> int:
		return 0


class Square(Shape):
	@override
	@property
	def area(self) -> float:
		return self.side * self.side

	@property
	@override
	def corners(self) -> int:
		return 4


class Box(Generic[T]):
	v: T
	items: list[T]
	grid: dict[str, list[list[T]]]

	def __init__(self, v: T) -> None:
		self.v = v
		self.items = [v]
		self.grid = {'g': [[v]]}

	def first(self) -> T:
		return self.items[0]


class IntBox(Box[int]):
	step: int

	def __init__(self, v: int) -> None:
		super().__init__(v)
		self.step = 2


class Counter(IntBox):
	def bump(self) -> int:
		return self.v + self.step


class Labeled(Box[str]):
	pass


class Tagged(Labeled):
	pass


def index_all[E](xs: list[E]) -> dict[str, list[tuple[int, E]]]:
	return {'all': [(i, x) for i, x in enumerate(xs)]}


def nest[E](v: E) -> list[list[list[E]]]:
	return [[[v]]]


def pairs_of[E](xs: list[E]) -> list[tuple[int, E]]:
	return [(i, x) for i, x in enumerate(xs)]


def protocols2(flag: bool) -> int:
	sq = Square(1.5)
	sq_area = sq.area
	sq_corners = sq.corners
	areas = [s.area for s in [sq, Square(2.0)]]
	scaled = sq.area * 2.0
	counter = Counter(3)
	cv = counter.v
	ci = counter.items
	csum = counter.v + counter.step
	cgrid = counter.grid
	crow = counter.grid['g']
	ccell = counter.grid['g'][0][0]
	labeled = [Tagged('a'), Tagged('bc')]
	lvs = [x.v for x in labeled]
	ib = IntBox(1)
	ibv = ib.v
	indexed = index_all([1.5, 2.5])
	irow = indexed['all']
	ipair = indexed['all'][0]
	ival = indexed['all'][0][1]
	nested = nest(1)
	nrow = nested[0]
	ncell = nested[0][0][0]
	for npart in nest('s'):
		nlast = npart[0][0]
	shallow = pairs_of(['a', 'b'])
	sval = shallow[0][1]
	return cv
'''


def operator_matrix() -> tuple[str, list]:
	"""Deterministic program: every arithmetic operator over every pair of {int, float, bool} operands, every pair of operators in a
	flat three-operand chain over int and int/float operands, unary minus, comparisons - each typed by CPython at run time."""
	ops = ['+', '-', '*', '/', '%']
	lines = ['def matrix(i: int, j: int, f: float, g: float, b: bool, c: bool) -> int:']
	n = 0
	vals = {'int': ['i', 'j'], 'float': ['f', 'g'], 'bool': ['b', 'c']}
	for o in ops:
		for lt in vals:
			for rt in vals:
				if o == '%' and 'bool' in (lt, rt) and lt != rt:
					continue
				n += 1
				lines.append(f'\tm{n} = {vals[lt][0]} {o} {vals[rt][1]}')
	for o1 in ops:
		for o2 in ops:
			for a, b_, c_ in (('i', 'j', 'i'), ('i', 'j', 'f'), ('f', 'i', 'j'), ('i', 'f', 'j')):
				n += 1
				lines.append(f'\tm{n} = {a} {o1} {b_} {o2} {c_}')
	for e in ('-i', '-f', '-b', 'i < f', 'not i', 'i == j', 'f if b else g', 'i if b else j', 'i * (j / 2)', '(i + j) % 2.5', 'i // 1' if False else 'i * j % 7'):
		n += 1
		lines.append(f'\tm{n} = {e}')
	lines.append('\treturn i')
	return '\n'.join(lines) + '\n', [['matrix', [[7, 3, 2.5, 1.5, True, True]]]]


def split_library(source: str, name: str) -> tuple[str, str, str] | None:
	"""(library module name, main text, library text): the declarations (enums, generic class, generic functions, classes) move to a
	library module and the functions import them - types then reach the main module through the import / expand_modules path."""
	import re
	lines = source.split('\n')
	cut = next((i for i, l in enumerate(lines) if re.match(r'def fn\d+\(', l)), None)
	if cut is None:
		return None
	head = [l for l in lines[:cut] if l.startswith(('from ', 'import '))]
	lib_text = '\n'.join(lines[:cut]).rstrip('\n') + '\n'
	names = re.findall(r'^(?:class|def) (\w+)', lib_text, re.M)
	main = head + [f'from {name} import ' + ', '.join(names), '', ''] + lines[cut:]
	return name, '\n'.join(main), lib_text


WITNESSES = [
	# open finding lambda-parameter-keeps-callee-type-parameter (the random workload does not pass lambdas to generic functions)
	('from collections.abc import Callable\n\n\ndef apply[A6, B6](f: Callable[[A6], B6], a: A6) -> B6:\n\treturn f(a)\n\n\ndef entry(n: int) -> int:\n\tr = apply(lambda q: [q], n)\n\treturn n\n', [['entry', [[1]]]]),
	# open finding optional-argument-collapses-to-first-member (the random workload does not pass optionals to generic functions)
	('def ident[T1](v: T1) -> T1:\n\treturn v\n\n\ndef entry(n: int) -> int:\n\to: int | None = None\n\tident(o)\n\treturn n\n', [['entry', [[1]]]]),
	# fixed: a3fd437 (dict[K, V] -> V), 20e481b (annotated lambda using its parameter)
	('from collections.abc import Callable\n\n\ndef val_of[K, V](d: dict[K, V], k: K) -> V:\n\treturn d[k]\n\n\ndef entry(n: int) -> int:\n\td = {0: True}\n\tb = val_of(d, 0)\n\tfn: Callable[[int], int] = lambda a: a + n\n\tc = fn(2)\n\treturn c\n', [['entry', [[1]]]]),
]


def shard(ctx: Ctx, acc: Acc) -> None:
	from vf.gen.typed import TypedGen
	from vf.gen.tycomp import TyGen
	n = N_PROGRAMS[ctx.tier]
	if ctx.shard == 0:
		for src, entries in WITNESSES:
			acc.see('generator', 'witness')
			check_program(acc, {'source': src, 'entries': entries})
		acc.see('generator', 'witness')
		check_program(acc, {'source': WITNESS_INHERITED_GENERIC_METHOD, 'entries': [['entry', [[1]]]], 'witness': 'inherited-generic-method'})
	if ctx.shard == 1 % ctx.nshards:
		src, entries = operator_matrix()
		acc.see('generator', 'operator-matrix')
		check_program(acc, {'source': src, 'entries': entries})
	if ctx.shard == 2 % ctx.nshards:
		# protocol fixture: user iterator classes, optionals written None-first, conditional expressions over differently
		# instantiated generics - executed with the condition both ways
		acc.see('generator', 'protocol-fixture')
		check_program(acc, {'source': PROTOCOLS, 'entries': [['protocols', [[True], [False]]]]})
		check_program(acc, {'source': PROTOCOLS2, 'entries': [['protocols2', [[True]]]]})
	for i in range(n):
		if not ctx.mine(i):
			continue
		if ctx.out_of_time():
			acc.truncated_by_budget = True
			break
		r = ctx.rng('program', i)
		if i % 3 == 0:
			g = TypedGen(r, size=r.choice([3, 5, 8]))
			p = g.program()
			source = p.source
			entries = [[e.name, e.vectors] for e in p.entries]
			if i % 2 == 0:
				source += FIXTURE
				entries.append(['use_shelf', [[1], [5]]])
			acc.see('generator', 'typed')
		else:
			source, entries = TyGen(r, size=r.choice([2, 4, 6, 8])).program()
			acc.see('generator', 'tycomp')
			if i % 3 == 2:
				lib = split_library(source, f'vflib{i % 7}')
				if lib:
					acc.see('generator', 'tycomp-two-modules')
					try:
						check_program(acc, {'source': lib[1], 'entries': entries, 'lib': {'name': lib[0], 'source': lib[2]}})
					except Exception as e:  # noqa
						acc.extra.setdefault('harness_errors', []).append(fmt_exc(e) + source[-400:])
						return
					continue
		try:
			check_program(acc, {'source': source, 'entries': entries})
		except Exception as e:  # noqa
			acc.extra.setdefault('harness_errors', []).append(fmt_exc(e) + source[-400:])
			return


def replay(ctx: Ctx, case: dict, acc: Acc) -> None:
	check_program(acc, case)
