"""Entry point: `check <ID> <quick|thorough>`, `check <ID> --replay <file>`, internal `--shard`."""
from __future__ import annotations

import importlib
import json
import os
import sys
import time

from vf import compat  # noqa: F401  (3.12 fallback shims; no-op on 3.13)
from vf.common import (Acc, Ctx, NCPU, load_known_findings, run_shards, write_evidence,
	write_replay, fmt_exc)


def load_prop(pid: str):
	return importlib.import_module(f'vf.props.{pid.lower()}')


def run_shard(argv: list[str]) -> int:
	pid, tier, seed, i, n, out = argv[0], argv[1], int(argv[2]), int(argv[3]), int(argv[4]), argv[5]
	mod = load_prop(pid)
	ctx = Ctx(pid, tier, seed, i, n)
	budget = getattr(mod, 'BUDGET_S', {'quick': 60, 'thorough': 600})[tier]
	ctx.deadline = ctx.t0 + budget
	acc = Acc()
	try:
		mod.shard(ctx, acc)
	except BaseException as e:  # harness failure: never a verdict
		acc.extra.setdefault('harness_errors', []).append(fmt_exc(e))
	with open(out + '.tmp', 'w') as f:
		json.dump(acc.to_json(), f, default=str)
	os.replace(out + '.tmp', out)
	return 0


def classify(mod, violation: dict, findings: list[dict]) -> dict | None:
	fn = getattr(mod, 'classify', None)
	if fn is None:
		return None
	key = fn(violation)
	if key is None:
		return None
	for f in findings:
		if f.get('status') == 'open' and f.get('key') == key:
			return f
	return None


def main(argv: list[str]) -> int:
	if argv and argv[0] == '--shard':
		return run_shard(argv[1:])
	if len(argv) < 2:
		print('usage: check <ID> <quick|thorough> | check <ID> --replay <file>')
		return 2
	pid = argv[0].upper()
	mod = load_prop(pid)
	seed = int(os.environ.get('VERIF_SEED', '0') or 0)
	findings = load_known_findings(pid)

	if argv[1] == '--replay':
		with open(argv[2]) as f:
			v = json.load(f)
		ctx = Ctx(pid, 'quick', seed)
		acc = Acc()
		mod.replay(ctx, v['case'], acc)
		open_keys = {e['key'] for e in findings if e.get('status') == 'open'}
		fresh = []
		for x in acc.violations:
			key = mod.classify(x) if hasattr(mod, 'classify') else None
			if key in open_keys:
				print(f"KNOWN-FINDING: property={pid} {key}: reproduced: {x['detail'][:300]}")
			else:
				fresh.append(x)
		if fresh:
			for x in fresh:
				print(f"reproduced: {x['kind']}: {x['detail'][:2000]}")
			print(f'VIOLATION property={pid} replay={argv[2]}')
			return 1
		print('not reproduced' if not acc.violations else 'reproduced only listed known findings')
		return 0

	tier = argv[1]
	assert tier in ('quick', 'thorough'), tier
	t0 = time.time()
	nshards = min(NCPU, getattr(mod, 'SHARDS', {'quick': 8, 'thorough': 16})[tier])
	timeout = getattr(mod, 'TIMEOUT_S', {'quick': 600, 'thorough': 7200})[tier]
	parts, problems = run_shards(pid, tier, seed, nshards, timeout)
	acc = Acc.merge(parts)
	harness_errors = list(acc.extra.pop('harness_errors', [])) + problems

	# triage violations against the committed known-findings file (never written here)
	fresh, known_hits = [], {}
	for v in acc.violations:
		f = classify(mod, v, findings)
		if f is not None:
			known_hits.setdefault(f['key'], []).append(v)
		else:
			fresh.append(v)
	for f in findings:
		if f.get('status') == 'open' and f['key'] in known_hits:
			print(f"KNOWN-FINDING: property={pid} {f['key']}: {f.get('mechanism', '')} (seen {len(known_hits[f['key']])}x this run)")
	open_not_seen = [f['key'] for f in findings if f.get('status') == 'open' and f['key'] not in known_hits]

	dropped = int(acc.extra.get('violations_dropped', 0))
	replay_paths = []
	seen_kinds = set()
	for v in fresh:
		path = write_replay(pid, v)
		replay_paths.append(path)
		k = (v['kind'], v['detail'][:200])
		if k in seen_kinds and len(replay_paths) > 10:
			continue
		seen_kinds.add(k)
		print(f"violation[{v['kind']}]: {v['detail'][:1500]}")
		print(f'VIOLATION property={pid} replay={path}')

	min_obs = getattr(mod, 'MIN_OBS', {})
	unreached = []
	for table, need in min_obs.items():
		need_n = need[tier] if isinstance(need, dict) else need
		got = sum(acc.obs.get(table, {}).values())
		if got < need_n:
			unreached.append(f'{table}: {got} < {need_n}')

	cov = {
		'evaluations': acc.evaluations,
		'distinct_nontrivial': len(acc.sigs),
		'rule': getattr(mod, 'RULE', ''),
		'samples': acc.samples or ['<none>'],
		'inconclusive_by_reason': dict(acc.inconclusive),
		'inconclusive_samples': acc.inconclusive_samples,
		'observed': {t: dict(sorted(c.items(), key=lambda kv: (-kv[1], kv[0]))[:120]) for t, c in acc.obs.items()},
		'observed_distinct': {t: len(c) for t, c in acc.obs.items()},
		'known_findings_seen': {k: len(v) for k, v in known_hits.items()},
		'known_findings_open_not_seen_this_run': open_not_seen,
		'harness_errors': harness_errors[:5],
		'shards': nshards,
		'truncated_by_wall_clock_budget': acc.truncated_by_budget,
		'interpreter': sys.version.split()[0] + (' (3.12 fallback shim)' if os.environ.get('VERIF_SHIM') == '1' else ''),
		'unreached_monitors': unreached,
	}
	post = getattr(mod, 'coverage', None)
	if post:
		cov.update(post(acc))
	for k, v in acc.extra.items():
		if k not in cov and k != 'violations_dropped':
			cov[k] = v
	level = getattr(mod, 'LEVEL', 'exploration')
	wall = time.time() - t0
	write_evidence(pid, tier, seed, level, cov, getattr(mod, 'ASSUMPTIONS', []), wall, len(fresh) + dropped)

	held = acc.evaluations - sum(acc.inconclusive.values())
	print(f'{pid} {tier} seed={seed}: evaluations={acc.evaluations} distinct={len(acc.sigs)} '
		f'inconclusive={sum(acc.inconclusive.values())} violations={len(fresh)} known={sum(len(v) for v in known_hits.values())} wall={wall:.1f}s')
	for t, c in acc.obs.items():
		print(f'  observed {t}: {len(c)} distinct, {sum(c.values())} events')
	if fresh:
		return 1
	if harness_errors:
		for h in harness_errors[:5]:
			print('HARNESS-ERROR:', h[-1500:])
		print(f'INCONCLUSIVE property={pid}: harness error (not a verdict on the code)')
		return 2
	if acc.evaluations == 0 or held <= 0 or unreached:
		print(f'INCONCLUSIVE property={pid}: deciding monitor not reached ({unreached or "no evaluations"})')
		return 2
	return 0


if __name__ == '__main__':
	sys.exit(main(sys.argv[1:]))
