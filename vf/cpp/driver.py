"""Driver generation, canonical value form on the Python side, and the compile/run pool for C01."""
from __future__ import annotations

import enum
import os
import re
import subprocess

from vf.gen.typed import Program, Entry

HERE = os.path.dirname(os.path.abspath(__file__))
PRELUDE = os.path.join(HERE, 'prelude.h')
CXXFLAGS = ['-std=c++20', '-O0', '-g0', '-fsanitize=address,undefined', '-fno-sanitize-recover=all', '-fno-omit-frame-pointer', '-w']


# ---------------------------------------------------------------------------- canonical form (python side)

def pyrepr(v, classes: dict) -> str:
	if isinstance(v, bool):
		return 'True' if v else 'False'
	if isinstance(v, int):
		return str(v)
	if isinstance(v, float):
		return '0' if v == 0 else '%.17g' % v  # -0.0 and 0.0 are the same value
	if isinstance(v, str):
		o = "'"
		for ch in v:
			c = ord(ch)
			if ch in ("\\", "'"):
				o += '\\' + ch
			elif c < 32 or c > 126:
				o += '\\x%02x' % c
			else:
				o += ch
		return o + "'"
	if isinstance(v, enum.Enum):
		return 'enum:' + str(v.value)
	if isinstance(v, list):
		return '[' + ', '.join(pyrepr(e, classes) for e in v) + ']'
	if isinstance(v, tuple):
		return '(' + ', '.join(pyrepr(e, classes) for e in v) + ')'
	if isinstance(v, dict):
		items = sorted(v.items(), key=lambda kv: kv[0].value if isinstance(kv[0], enum.Enum) else kv[0])
		return '{' + ', '.join(f'{pyrepr(k, classes)}: {pyrepr(x, classes)}' for k, x in items) + '}'
	name = type(v).__name__
	if name in classes:
		fields = classes[name].all_fields(classes)
		return name + '{' + ', '.join(f'{fn}={pyrepr(getattr(v, fn), classes)}' for fn, _ in fields) + '}'
	if v is None:
		return 'None'
	return f'<{name}>'


def cpp_literal(v) -> str:
	if isinstance(v, bool):
		return 'true' if v else 'false'
	if isinstance(v, int):
		return str(v)
	if isinstance(v, float):
		return repr(v) if '.' in repr(v) or 'e' in repr(v) else repr(v) + '.0'
	if isinstance(v, str):
		return 'std::string("' + v.replace('\\', '\\\\').replace('"', '\\"') + '")'
	raise ValueError(v)


def run_python(prog: Program) -> dict[tuple[int, int], str]:
	"""CPython executes the very same source; one line per (entry, vector): 'ok <repr>' or 'raise <class>'."""
	ns: dict = {}
	exec(compile(prog.source, '<program>', 'exec'), ns)  # noqa: S102
	out = {}
	for ei, e in enumerate(prog.entries):
		fn = ns[e.name]
		for vi, vec in enumerate(e.vectors):
			try:
				out[(ei, vi)] = 'ok\t' + pyrepr(fn(*vec), prog.classes)
			except RecursionError:
				out[(ei, vi)] = 'raise\tRecursionError'
			except Exception as ex:  # noqa
				out[(ei, vi)] = 'raise\t' + type(ex).__name__
	return out


# ---------------------------------------------------------------------------- driver (C++ side)

def class_reprs(prog: Program) -> str:
	out = []
	for name, cls in prog.classes.items():
		fields = cls.all_fields(prog.classes)
		body = ' + ", " + '.join(f'std::string("{fn}=") + repr(o.{fn})' for fn, _ in fields) if fields else 'std::string("")'
		out.append(f'inline std::string repr(const {name}& o) {{ return std::string("{name}{{") + {body} + "}}"; }}')
	return '\n'.join(out)


def driver_for(prog: Program, ns: str, header: str) -> str:
	"""C++ text: the emitted header inside a namespace + one run function printing 'e<TAB>v<TAB>ok|raise<TAB>value'."""
	lines = [f'namespace {ns} {{', 'using vf::repr;', f'#include "{header}"', class_reprs(prog)]
	lines.append('static void vf_case(int e, int v) {')
	lines.append('\ttry {')
	lines.append('\t\tswitch (e * 1000 + v) {')
	for ei, e in enumerate(prog.entries):
		for vi, vec in enumerate(e.vectors):
			args = ', '.join(cpp_literal(a) for a in vec)
			lines.append(f'\t\tcase {ei * 1000 + vi}: {{ auto r = {e.name}({args}); std::printf("%d\\t%d\\tok\\t%s\\n", e, v, repr(r).c_str()); break; }}')
	lines.append('\t\tdefault: break;')
	lines.append('\t\t}')
	lines.append('\t} catch (const std::runtime_error& ex) { std::printf("%d\\t%d\\traise\\tRuntimeError\\n", e, v); }')
	lines.append('\t  catch (const std::out_of_range& ex) { std::printf("%d\\t%d\\traise\\tstd::out_of_range\\n", e, v); }')
	lines.append('\t  catch (const std::exception& ex) { std::printf("%d\\t%d\\traise\\tException\\n", e, v); }')
	lines.append('}')
	lines.append(f'}}  // namespace {ns}')
	return '\n'.join(lines)


def main_for(units: list[tuple[str, Program]]) -> str:
	"""main(argc, argv): argv[1] = unit index, optional argv[2], argv[3] = entry, vector (else all of the unit)."""
	lines = ['int main(int argc, char** argv) {', '\tint u = argc > 1 ? std::atoi(argv[1]) : -1;', '\tint oe = argc > 3 ? std::atoi(argv[2]) : -1;', '\tint ov = argc > 3 ? std::atoi(argv[3]) : -1;', '\tstd::setvbuf(stdout, nullptr, _IOLBF, 0);']
	for ui, (ns, prog) in enumerate(units):
		lines.append(f'\tif (u == {ui}) {{')
		lines.append(f'\t\tif (oe >= 0) {{ {ns}::vf_case(oe, ov); return 0; }}')
		for ei, e in enumerate(prog.entries):
			lines.append(f'\t\tfor (int v = 0; v < {len(e.vectors)}; v++) {ns}::vf_case({ei}, v);')
		lines.append('\t}')
	lines.append('\treturn 0;')
	lines.append('}')
	return '\n'.join(lines)


# ---------------------------------------------------------------------------- toolchain

def compiler(name: str = 'g++') -> str:
	return name


def build_pch(workdir: str, cxx: str = 'g++') -> str:
	"""Precompile the prelude once per run (same flags as the translation units)."""
	dst = os.path.join(workdir, 'prelude.h')
	with open(PRELUDE) as f, open(dst, 'w') as g:
		g.write(f.read())
	if cxx == 'g++':
		subprocess.run([cxx, *CXXFLAGS, '-x', 'c++-header', dst, '-o', dst + '.gch'], check=True, capture_output=True, timeout=300)
	return dst


def compile_tu(workdir: str, tu_name: str, text: str, cxx: str = 'g++', timeout: int = 300) -> tuple[bool, str, str]:
	"""Returns (ok, binary path, compiler diagnostics)."""
	src = os.path.join(workdir, tu_name + '.cpp')
	binp = os.path.join(workdir, tu_name + '.bin')
	with open(src, 'w') as f:
		f.write(text)
	cmd = [cxx, *CXXFLAGS, '-I', workdir, '-include', os.path.join(workdir, 'prelude.h'), src, '-o', binp]
	try:
		p = subprocess.run(cmd, capture_output=True, text=True, timeout=timeout)
	except subprocess.TimeoutExpired:
		return False, binp, 'compiler timeout'
	return p.returncode == 0, binp, p.stderr


RE_SAN = re.compile(r'(AddressSanitizer: [\w-]+|runtime error: [^\n]{0,120}|LeakSanitizer)')


def run_unit(binp: str, unit: int, entry: int | None = None, vector: int | None = None, timeout: int = 20) -> tuple[dict[tuple[int, int], str], str, int]:
	"""Returns ({(entry, vector): 'ok\\tvalue' | 'raise\\tclass'}, sanitizer/abort summary, return code)."""
	args = [binp, str(unit)] + ([str(entry), str(vector)] if entry is not None else [])
	env = dict(os.environ, ASAN_OPTIONS='detect_leaks=0:abort_on_error=0:halt_on_error=1:detect_stack_use_after_return=1', UBSAN_OPTIONS='print_stacktrace=0:halt_on_error=1')
	try:
		p = subprocess.run(args, capture_output=True, text=True, timeout=timeout, env=env, errors='replace')
	except subprocess.TimeoutExpired:
		return {}, 'timeout', -9
	out = {}
	for line in p.stdout.split('\n'):
		parts = line.split('\t', 3)
		if len(parts) >= 4 and parts[0].lstrip('-').isdigit():
			out[(int(parts[0]), int(parts[1]))] = parts[2] + '\t' + parts[3]
	san = ''
	if p.returncode != 0:
		m = RE_SAN.search(p.stderr)
		san = m.group(1) if m else (f'exit {p.returncode}: ' + p.stderr.strip().split('\n')[-1][:200] if p.stderr.strip() else f'exit {p.returncode}')
	return out, san, p.returncode
