// Prelude for compiling C++ emitted by tranp inside the C01 harness.
// The emitted text is a header that relies on standard headers without including them all; this file provides them,
// a stand-in for std::format where <format> is missing (g++ 12 / clang 14 in this image: messages of exceptions are never compared),
// and the canonical value printer used by the generated drivers.
#pragma once
#include <algorithm>
#include <cmath>
#include <cstdio>
#include <cstdlib>
#include <functional>
#include <map>
#include <memory>
#include <stdexcept>
#include <string>
#include <tuple>
#include <type_traits>
#include <vector>
#if __has_include(<format>)
#include <format>
#else
namespace std {
template <class... A> inline std::string format(const char* fmt, A&&...) { return std::string(fmt); }
template <class... A> inline std::string format(const std::string& fmt, A&&...) { return fmt; }
}
#endif

namespace vf {
inline std::string repr(bool v) { return v ? "True" : "False"; }
inline std::string repr(int v) { return std::to_string(v); }
inline std::string repr(long v) { return std::to_string(v); }
inline std::string repr(long long v) { return std::to_string(v); }
inline std::string repr(unsigned long v) { return std::to_string(v); }
inline std::string repr(unsigned int v) { return std::to_string(v); }
inline std::string repr(double v) { if (v == 0) return "0"; /* -0.0 and 0.0 are the same value */ char b[64]; std::snprintf(b, sizeof b, "%.17g", v); return b; }
inline std::string repr(float v) { return repr(double(v)); }
inline std::string repr(const std::string& s) {
	std::string o = "'";
	for (unsigned char c : s) {
		if (c == '\\' || c == '\'') { o += '\\'; o += char(c); }
		else if (c < 32 || c > 126) { char b[8]; std::snprintf(b, sizeof b, "\\x%02x", c); o += b; }
		else o += char(c);
	}
	return o + "'";
}
inline std::string repr(const char* s) { return repr(std::string(s)); }
template <class E, std::enable_if_t<std::is_enum_v<E>, int> = 0> inline std::string repr(E e) { return "enum:" + std::to_string(static_cast<long long>(e)); }
template <class T> std::string repr(const std::vector<T>& v);
template <class K, class V> std::string repr(const std::map<K, V>& m);
template <class... T> std::string repr(const std::tuple<T...>& t);
template <class T> std::string repr(const std::vector<T>& v) {
	std::string o = "[";
	bool first = true;
	for (const auto& e : v) { if (!first) o += ", "; first = false; o += repr(e); }
	return o + "]";
}
template <class K, class V> std::string repr(const std::map<K, V>& m) {
	std::string o = "{";
	bool first = true;
	for (const auto& [k, v] : m) { if (!first) o += ", "; first = false; o += repr(k) + ": " + repr(v); }
	return o + "}";
}
template <class... T> std::string repr(const std::tuple<T...>& t) {
	std::string o = "(";
	bool first = true;
	std::apply([&](const auto&... e) { ((o += (first ? "" : ", "), first = false, o += repr(e)), ...); }, t);
	return o + ")";
}
}  // namespace vf
